"""C01 - print -> re-parse round trip (tree identical, printing is a fix-point), also after copy().

Enumerates every accepted sentence of the GSX S0 families (edge cover + production-pair cover of the
live grammars) for the three dialects, plus one lexeme respelling at a time, and replays each through
parse_sql -> str -> parse_sql.
"""
import re

from vf import gsx, lexemes, parsing
from vf.runner import Check, Result, exc_sig


def first_diff(a, b):
    la, lb = a.split('\n'), b.split('\n')
    for x, y in zip(la, lb):
        if x != y:
            return x.strip()[:80], y.strip()[:80]
    return ('<len>', '<len>')


def node_class(line):
    m = re.match(r'\s*([A-Za-z_]+)', line)
    return m.group(1) if m else '?'


VALUE_TOKENS = {'ID', 'QUOTE_STRING', 'DQUOTE_STRING', 'INTEGER', 'FLOAT', 'VARIABLE', 'SYSTEM_VARIABLE'}


def lexdiff(m, text, printed):
    """where the printed SQL first deviates lexically from the source text: 'A->B' (token types),
    'value:T' (same types, a lexeme-bearing token changed value), 'same' or 'unlexable-print'"""
    try:
        a = m.lex(parsing.strip_tail(text))
    except parsing.LexError:
        return 'unlexable-source'
    try:
        b = m.lex(parsing.strip_tail(printed))
    except parsing.LexError as e:
        return 'unlexable-print'
    for x, y in zip(a, b):
        if x.type != y.type:
            return f'{x.type}->{y.type}'
        if x.type in VALUE_TOKENS and x.value != y.value:
            return f'value:{x.type}'
    if len(a) != len(b):
        return f'{a[len(b)].type}->$end' if len(a) > len(b) else f'$end->{b[len(a)].type}'
    return 'same'


def reject_point(m, printed):
    """token type at which the recovery-free automaton rejects the printed text (or the illegal character)"""
    try:
        toks = m.lex(parsing.strip_tail(printed))
    except parsing.LexError as e:
        ch = str(e.text[:1]) if getattr(e, 'text', None) else '?'
        return f'illegal-char:{ch!r}'
    types = [t.type for t in toks]
    ok, err = m.simulate(types)
    if ok:
        return 'action-veto'
    bad = types[err] if err < len(types) else '$end'
    return f'at:{bad}'


# multi-line inner queries for the commands that store raw text: a line ends in a token whose decoded value is shorter /
# longer than its source, followed by more lines
RAW_BODIES = [
    "select * from t where a = 'it''s'\n  and b = 2",
    "select * from t where a = 'a\\'b'\n  and b = 2\n  and c = 3",
    'select * from t where a = "a\\"b"\nand b = 2',
    "select @`a b`\n, 1\nfrom t",
    "select @@sv\n, @v\n  from t",
    "select ''\n, " + "'" * 4 + "\n, 1",
    "select 1 -- c\n, 2\n from t",
    "select /* c\n d */ 1\n, 2",
    "select\n\n1\n\n,\n2",
    "select 'a\nb'\n, 2",
    "select `x y`\n, 007\n, 1.50\nfrom t",
]


class CHECK(Check):
    pid = 'C01'
    level = 'model_checking'
    assumptions = ['to_tree() is the tree identity the property speaks about (as in ASTNode.__eq__)']

    def setup(self, tier, seed):
        self.tier, self.seed = tier, seed
        self.models = {d: gsx.Model(d) for d in gsx.DIALECTS}
        self.fams = {d: gsx.Families(m, 1) for d, m in self.models.items()}

    def cases(self):
        out = []
        thorough = self.tier == 'thorough'
        for d, m in self.models.items():
            f = self.fams[d]
            pairs = set(f.s0_pairs())
            usable = lambda s: m.simulate(s)[0] and all(t in m.lexeme for t in s)
            sents = sorted(s for s in set(f.s0_edges()) | pairs if usable(s))
            kw = lexemes.keyword_ids(m)
            for s in sents:
                out.append((d, 'default', None, m.text_of(s, numbered=True)))
                if sum(1 for t in s if t == 'ID') > 1:
                    out.append((d, 'same-names', None, m.text_of(s)))
                if s in pairs:
                    # layout deviation: every token on a line of its own
                    out.append((d, 'layout', 'nl', m.text_of(s, numbered=True).replace(' ', '\n')))
                    for i, sp, text in lexemes.deviations(m, s, alts=lexemes.ALT, per_class_first_only=not thorough, magic=False):
                        out.append((d, s[i], sp, text))
            # two derivation steps away from the minimal sentences; expression leaves as identifiers (0) and as integers (1)
            seen = set(pairs)
            for table in (0, 1) + ((2,) if thorough else ()):
                for s in f.s0_pairs(table=table) + f.s0_triples(table=table) + (f.s0_sibling_pairs(table=table) if table == 0 or thorough else []):
                    if s not in seen and usable(s):
                        seen.add(s)
                        out.append((d, 'default', None, m.text_of(s, numbered=True)))
                        if table == 0 and sum(1 for t in s if t == 'ID') > 1:
                            # all names equal: a name written in one clause coincides with the names of the others
                            # (a key list naming a declared column, an alias equal to a table ...)
                            out.append((d, 'same-names', None, m.text_of(s)))
            # keyword identifiers: every keyword word back-quoted (and bare) in a few fixed contexts
            for w in kw:
                for ctx in ('select %s from t', 'select a from %s', 'select a as %s from t', 'select t.%s from t', 'select %s.a from %s',
                            'insert into %s (a) values (1)', 'drop table %s', 'select f(%s) from t'):
                    out.append((d, 'ID', '`kw`', ctx.replace('%s', '`%s`' % w)))
                    out.append((d, 'ID', 'kw', ctx.replace('%s', w)))
            for sp in lexemes.keyword_like_ids(m):
                for ctx in ('select %s from t', 'select t.%s from t', 'select a from %s', 'select a as %s from t'):
                    out.append((d, 'ID', 'kw$', ctx.replace('%s', sp)))
            for text in f.kw_family(['abc'] + lexemes.MAGIC_IDS):
                out.append((d, 'kw', None, text))
            if d == 'mindsdb':
                # statements that embed a raw inner query: lexeme sequences x embeddings x layouts (the stored text is part of the tree)
                from vf.props import c16
                import itertools
                for n in (1, 2):
                    for seq in itertools.product(c16.LEX, repeat=n):
                        if not c16.balanced(seq):
                            continue
                        for ei, (name, tpl, attr) in enumerate(c16.EMBED):
                            for layout in c16.LAYOUTS:
                                out.append((d, 'raw:' + name, layout, tpl.format(q=c16.lay(seq, layout))))
                for body in RAW_BODIES:
                    for ei, (name, tpl, attr) in enumerate(c16.EMBED):
                        out.append((d, 'raw:' + name, 'multi-line', tpl.format(q=body)))
            if thorough:
                f2 = gsx.Families(m, 2)
                self.fams[d + '2'] = f2
                n2 = len(f2.ex['states'])
                for lo in range(0, n2, 200):
                    out.append(('@group', d, 'k2', lo, min(n2, lo + 200)))
                for lo in range(0, len(sents), 50):
                    out.append(('@group', d, 'kwdev', lo, min(len(sents), lo + 50)))
                self._sents = getattr(self, '_sents', {})
                self._sents[d] = sents
        return out

    def expand(self, group):
        _, d, fam, lo, hi = group
        m = self.models[d]
        if fam == 'k2':
            f2 = self.fams[d + '2']
            for a in list(f2.ex['states'])[lo:hi]:
                pre, stk = f2.ex['states'][a]
                for t in m.terminals:
                    r = m.step(stk, t)
                    if r is None or r == 'accept':
                        continue
                    c = m.complete(r)
                    if c is None:
                        continue
                    s = pre + (t,) + c
                    if all(x in m.lexeme for x in s):
                        yield (d, 'default', None, m.text_of(s, numbered=True))
        elif fam == 'kwdev':
            # every keyword, back-quoted, at the first identifier position of every k=1 sentence
            kw = lexemes.keyword_ids(m)
            for s in self._sents[d][lo:hi]:
                if 'ID' not in s:
                    continue
                i = s.index('ID')
                base = [m.lexeme.get(t, t) for t in s]
                for w in kw:
                    toks = list(base)
                    toks[i] = '`%s`' % w
                    yield (d, 'ID', toks[i], ' '.join(toks))

    def run(self, case):
        res = Result()
        d, cls, sp, text = case
        out = parsing.outcome(text, d)
        if out.kind != 'ok':
            res.count('not_accepted')
            return res
        t0 = out.value
        res.count('accepted')
        dev = 'default' if sp is None else f'{cls}:{sp}'
        root = type(t0).__name__
        try:
            tree0 = t0.to_tree()
            s1 = str(t0)
        except RecursionError:
            raise
        except Exception as e:
            res.violation(f'{d}|print-crash|{exc_sig(e)}', f'{text!r}: printing raised {type(e).__name__}: {e}')
            return res
        res.key((d, s1))
        out1 = parsing.outcome(s1, d)
        if out1.kind != 'ok':
            why = type(out1.exc).__name__ if out1.exc is not None else out1.kind
            res.violation(f'{d}|reparse-fails|{root}|{reject_point(self.models[d], s1)}',
                          f'{text!r} parses, prints as {s1!r}, which is rejected: {str(out1.exc)[:150]!r}')
            return res
        t1 = out1.value
        try:
            tree1 = t1.to_tree()
            s2 = str(t1)
        except Exception as e:
            res.violation(f'{d}|print-crash-2|{exc_sig(e)}', f'{text!r} -> {s1!r}: printing the re-parsed tree raised {e!r}')
            return res
        if tree1 != tree0:
            a, b = first_diff(tree0, tree1)
            res.violation(f'{d}|tree-differs|{root}|{node_class(a)}->{node_class(b)}',
                          f'{text!r} prints as {s1!r}; trees differ at {a!r} vs {b!r}')
        elif s2 != s1:
            res.violation(f'{d}|not-fixpoint|{root}|{lexdiff(self.models[d], s1, s2)}', f'{text!r} prints as {s1!r}, re-parsed prints as {s2!r}')
        # copy
        try:
            c = t0.copy()
            if c.to_tree() != tree0 or str(c) != s1:
                res.violation(f'{d}|copy-differs|{root}', f'{text!r}: copy() prints {str(c)!r} vs {s1!r}')
        except Exception as e:
            res.violation(f'{d}|copy-crash|{exc_sig(e)}', f'{text!r}: copy() raised {e!r}')
        return res

    def coverage(self, agg):
        st = sum(len(f.ex['states']) for f in self.fams.values())
        tr = sum(f.ex['edges'] for f in self.fams.values())
        return {'exhaustive': True, 'states': st, 'transitions': tr, 'traces_validated_against_impl': agg['n'],
                'rule': 'accepted S0 sentences (edge cover + production-pair cover + production-triple cover) with numbered default lexemes, one lexeme respelling at a time, one-token-per-line layout, raw-query commands x lexeme sequences of length<=2 x layouts + multi-line bodies (thorough: k=2 edge cover, every keyword at the first identifier of every sentence), '
                        'every keyword as identifier in 8 contexts, USING-list family; distinct_nontrivial = distinct (dialect, printed SQL)'}

    def describe_case(self, case):
        return {'dialect': case[0], 'deviation': [case[1], case[2]], 'text': case[3]}

"""SCHED - cooperative scheduler and CHESS-style schedule explorer for real threads running real library code.

Scheduling points: sys.monitoring PY_START / PY_RETURN / PY_RESUME / PY_YIELD events of code objects
that live under the repository (plus LINE events in named functions on request).  Exactly one managed
thread runs at a time (baton passing over per-thread semaphores).  A schedule is the list of choices
taken at the points where more than one thread is enabled; choice 0 = keep running the current thread
(or the lowest id after a thread finished).  Exploration: all schedules with at most `bound`
preemptions, iterative (0, 1, 2 ...), stateless (every schedule re-runs the bodies from scratch).
"""
import sys
import threading

from vf.runner import REPO

TOOL = 3
mon = sys.monitoring
EVENTS = mon.events.PY_START | mon.events.PY_RETURN | mon.events.PY_RESUME | mon.events.PY_YIELD


class ReplayDivergence(Exception):
    pass


class Deadlock(Exception):
    pass


class Run:
    """one execution of the bodies under a choice prefix"""

    def __init__(self, bodies, prefix, line_funcs=()):
        self.bodies = bodies
        self.prefix = list(prefix)
        self.n = len(bodies)
        self.sems = [threading.Semaphore(0) for _ in bodies]
        self.done = [False] * self.n
        self.results = [None] * self.n
        self.points = []      # (enabled order, chosen index, running thread still enabled?, code name)
        self.choices = []
        self.current = None
        self.idents = {}
        self.finished = threading.Event()
        self.error = None
        self.line_funcs = line_funcs
        self.lock = threading.Lock()

    # ----------------------------------------------------------- scheduling
    def order(self, me):
        en = [i for i in range(self.n) if not self.done[i]]
        if me is not None and me in en:
            en.remove(me)
            en.insert(0, me)
        return en

    def pick(self, me, where):
        en = self.order(me)
        if len(en) <= 1:
            return en[0] if en else None
        k = len(self.choices)
        if k < len(self.prefix):
            c = self.prefix[k]
            if c >= len(en):
                raise ReplayDivergence(f'choice {c} out of range at point {k} ({where}), enabled {en}')
        else:
            c = 0
        self.choices.append(c)
        self.points.append((tuple(en), c, me is not None and not self.done[me], where))
        return en[c]

    def point(self, me, where):
        if self.error is not None:
            return
        try:
            target = self.pick(me, where)
        except ReplayDivergence as e:
            self.error = e
            target = me
        if target is not None and target != me:
            self.current = target
            self.sems[target].release()
            self.sems[me].acquire()

    # ----------------------------------------------------------- threads
    def worker(self, i):
        self.idents[threading.get_ident()] = i
        self.sems[i].acquire()
        try:
            self.results[i] = ('ok', self.bodies[i]())
        except BaseException as e:
            self.results[i] = ('exc', type(e).__name__, str(e)[:300])
        finally:
            self.done[i] = True
            self.idents.pop(threading.get_ident(), None)
            try:
                nxt = self.pick(None, 'thread-end')
            except ReplayDivergence as e:
                self.error = e
                en = self.order(None)
                nxt = en[0] if en else None
            if nxt is None:
                self.finished.set()
            else:
                self.current = nxt
                self.sems[nxt].release()

    def execute(self, timeout=60):
        global _ACTIVE
        threads = [threading.Thread(target=self.worker, args=(i,), daemon=True) for i in range(self.n)]
        _ACTIVE = self
        try:
            for t in threads:
                t.start()
            first = self.pick(None, 'start')
            self.current = first
            self.sems[first].release()
            if not self.finished.wait(timeout):
                raise Deadlock(f'no progress within {timeout}s; done={self.done}')
            for t in threads:
                t.join(5)
        finally:
            _ACTIVE = None
        if self.error is not None:
            raise self.error
        return self


_ACTIVE = None
_INSTALLED = False
_LINE_CODES = set()


def _is_repo(code):
    return code.co_filename.startswith(REPO + '/')


def _cb(code, *args):
    run = _ACTIVE
    if run is None:
        return
    if not _is_repo(code):
        return mon.DISABLE
    me = run.idents.get(threading.get_ident())
    if me is None:
        return
    run.point(me, code.co_name)


def _cb_line(code, line):
    run = _ACTIVE
    if run is None:
        return
    me = run.idents.get(threading.get_ident())
    if me is None:
        return
    run.point(me, f'{code.co_name}:{line}')


def install(line_funcs=()):
    """register the monitoring callbacks (once per process); line_funcs: function objects that get LINE-level points"""
    global _INSTALLED
    if not _INSTALLED:
        mon.use_tool_id(TOOL, 'vf-sched')
        for ev in (mon.events.PY_START, mon.events.PY_RETURN, mon.events.PY_RESUME, mon.events.PY_YIELD):
            mon.register_callback(TOOL, ev, _cb)
        mon.register_callback(TOOL, mon.events.LINE, _cb_line)
        mon.set_events(TOOL, EVENTS)
        _INSTALLED = True
    for f in line_funcs:
        code = f.__code__
        if code not in _LINE_CODES:
            _LINE_CODES.add(code)
            mon.set_local_events(TOOL, code, mon.events.LINE)


def clear_line_funcs():
    for code in list(_LINE_CODES):
        mon.set_local_events(TOOL, code, 0)
    _LINE_CODES.clear()


def preemptions_before(points, i):
    n = 0
    for (en, c, running, _w) in points[:i]:
        if running and c != 0:
            n += 1
    return n


def explore(make_bodies, bound, on_run, max_schedules=None, budget_s=None):
    """enumerate all schedules with <= bound preemptions.  make_bodies() -> fresh list of callables (fresh state per
    schedule); on_run(run) is called for every completed execution.  returns (schedules, max points, capped?)"""
    import time
    t0 = time.time()
    stack = [[]]
    count = 0
    maxpoints = 0
    capped = False
    while stack:
        if budget_s is not None and time.time() - t0 > budget_s:
            capped = True      # reported as a capped exploration, never as "exhaustive"
            break
        prefix = stack.pop()
        run = Run(make_bodies(), prefix).execute()
        count += 1
        maxpoints = max(maxpoints, len(run.points))
        on_run(run)
        if max_schedules and count >= max_schedules:
            capped = bool(stack)
            break
        cost = preemptions_before(run.points, len(prefix))
        for i in range(len(prefix), len(run.points)):
            en, c, running, _w = run.points[i]
            extra = 1 if running else 0
            if cost + extra <= bound:
                for alt in range(1, len(en)):
                    stack.append(run.choices[:i] + [alt])
            if running and c != 0:
                cost += 1
    return count, maxpoints, capped

#!/usr/bin/env python3
"""Regenerates /verif/MANIFEST.json from the table below (kept in one place so it stays valid)."""
import json
import os

ROOT = os.path.dirname(os.path.dirname(os.path.abspath(__file__)))

CHECKS = {
    'C02': dict(level='model_checking', engine='GSX',
                technique='explicit-state exploration of the live LALR automaton (BFS over between-token configurations, every terminal in every state) with every derived input replayed through parse_sql; plus exhaustive short strings/token pairs',
                text='Every reachable cell of the three action tables (valid and error cells), every production pair, every one-token deviation at every abstract parser state, all strings of length <=3 over a 36-character alphabet, all token pairs, lexeme respellings and a size ladder are replayed through parse_sql; any outcome other than tree / ParsingException / LexError is a violation. Total within these bounds, which is where grammar actions and the error reporter can crash.',
                note='Bounded: one (thorough: two) token deviations, strings <=3 chars, nesting <=100; per-case 20 s guard stands for termination.',
                ref='DESIGN.md section 3 C02, section 2 E1'),
    'C05': dict(level='model_checking', engine='GSX',
                technique='explicit-state exploration of the live LALR automaton; all witness traces replayed through parse_sql; membership oracle = recovery-free PDA over live tables + Earley recogniser over live productions',
                text='For every abstract parser state and every terminal (insert / replace / delete / truncate), every statement concatenation and every valid edge/production-pair sentence, parse_sql is run and every accepted text must be a sentence of the grammar according to two independent recognisers. Covers every reachable error cell of the action tables, which is where recovery could resynchronise.',
                note='Trusts the live lexer for the token stream; bounded to one (thorough: two) token deviations from witness sentences.',
                ref='DESIGN.md section 3 C05, section 2 E1'),
}

NOT_YET = {}


def main():
    props = [json.loads(l) for l in open(os.path.join(ROOT, 'properties.jsonl'))]
    checks = []
    na = []
    for p in props:
        pid = p['id']
        c = CHECKS.get(pid)
        if c is None:
            na.append({'property_id': pid, 'reason': NOT_YET.get(pid, 'check not built yet in this session (work in progress, see DESIGN.md build order)')})
            continue
        checks.append({
            'property_id': pid,
            'quick_cmd': f'./check {pid} --tier quick',
            'thorough_cmd': f'./check {pid} --tier thorough',
            'evidence_file': f'/verif/evidence/{pid}.json',
            'replay_cmd_template': f'./check {pid} --replay {{path}}',
            'engine': c['engine'],
            'level_claimed': {'category': c['level'], 'text': c['text'], 'design_ref': c['ref']},
            'level_note': c['note'],
            'technique': c['technique'],
        })
    man = {
        'version': 1,
        'setup_cmd': 'true',
        'hooks': {
            'guard': 'MINDSDB_SQL_VERIF',
            'enable': 'no source hooks are needed: models are read from the live parser objects and scheduling points come from sys.monitoring; ./check exports MINDSDB_SQL_VERIF=1 for uniformity',
            'baseline_off_cmd': 'cd /repo && env -u MINDSDB_SQL_VERIF /venv/bin/python -m pytest -ra -q -p no:cacheprovider --timeout=900 --continue-on-collection-errors',
            'source_commits': [],
            'add_only': True,
        },
        'engines': [
            {'name': 'GSX', 'path': '/verif/vf/gsx.py', 'serves_properties': ['C01', 'C02', 'C03', 'C04', 'C05', 'C13', 'C16', 'C17', 'C18', 'C19'],
             'kind_free_text': 'grammar-space explorer: PDA over the live SLY tables, BFS over abstract configurations, completions, Earley recogniser'},
        ],
        'checks': checks,
        'not_applicable': na,
        'notes': 'All checks are bounded-exhaustive explorations written in Python against the working tree of /repo (PYTHONPATH=/repo). See DESIGN.md.',
    }
    with open(os.path.join(ROOT, 'MANIFEST.json'), 'w') as fh:
        json.dump(man, fh, indent=1)
    print('checks', len(checks), 'not_applicable', len(na))


if __name__ == '__main__':
    main()

"""PLANX - reference interpreter for query plans over sqlite, written from the step docstrings in
mindsdb_sql/planner/steps.py.  Includes an own AST -> sqlite printer (fully parenthesised; does not use
to_string or the SQLAlchemy renderer).

One sqlite connection holds every integration as an ATTACHed schema.  A fetch for integration X is
printed with every table reference qualified by X, so a query that mentions a table living elsewhere
fails loudly.  Every step result ("dataframe") is materialised as a temp table; its logical header is a
list of (table tag, column name)."""
import collections
import itertools

from mindsdb_sql.parser import ast as A
from mindsdb_sql.planner import steps as S
from mindsdb_sql.planner.step_result import Result as StepResult


class PlanExecError(Exception):
    def __init__(self, where, msg):
        super().__init__(f'{where}: {msg}')
        self.where = where
        self.msg = msg


def q(name):
    return '"' + str(name).replace('"', '""') + '"'


def lit(v):
    if v is None:
        return 'NULL'
    if isinstance(v, bool):
        return 'TRUE' if v else 'FALSE'     # (sqlite: = 1 / 0, and IS [NOT] TRUE keeps its meaning as an operator)
    if isinstance(v, (int, float)):
        return repr(v)
    return "'" + str(v).replace("'", "''") + "'"


class Col:
    __slots__ = ('tag', 'name', 'phys')

    def __init__(self, tag, name, phys):
        self.tag, self.name, self.phys = tag, name, phys

    def __repr__(self):
        return f'{self.tag}.{self.name}' if self.tag else self.name


class Frame:
    def __init__(self, table, cols):
        self.table = table
        self.cols = cols

    def header(self):
        return [(c.tag, c.name) for c in self.cols]


JOIN_SQL = {'JOIN': 'JOIN', 'INNER JOIN': 'INNER JOIN', 'LEFT JOIN': 'LEFT JOIN', 'LEFT OUTER JOIN': 'LEFT OUTER JOIN', 'RIGHT JOIN': 'RIGHT JOIN',
            'RIGHT OUTER JOIN': 'RIGHT OUTER JOIN', 'FULL JOIN': 'FULL JOIN', 'FULL OUTER JOIN': 'FULL OUTER JOIN', 'CROSS JOIN': 'CROSS JOIN'}


class Printer:
    """AST -> sqlite text.  mode 'integration': table references are qualified with `schema`;
    mode 'frames': the (single or joined) frames are the only FROM and identifiers are resolved against their headers."""

    def __init__(self, interp, schema=None, frames=None):
        self.interp = interp
        self.schema = schema
        self.frames = frames      # list of (sql alias, Frame)
        self.cte_names = set()

    # ------------------------------------------------------------ identifiers
    def resolve(self, node):
        parts = [str(p) for p in node.parts]
        name = parts[-1].lower()
        tag = parts[-2].lower() if len(parts) >= 2 else None
        hits = []
        for alias, fr in self.frames:
            for c in fr.cols:
                if c.name.lower() == name and (tag is None or (c.tag is not None and c.tag.lower() == tag)):
                    hits.append((alias, c))
        if not hits and tag is not None and getattr(self, 'frame_name', None) is not None and tag == self.frame_name.lower():
            # SubSelectStep(table_name=X): inside the step's query the dataframe is the table called X
            for alias, fr in self.frames:
                for c in fr.cols:
                    if c.name.lower() == name:
                        hits.append((alias, c))
        if len(hits) == 1:
            return hits[0]
        if not hits:
            raise PlanExecError('resolve', f'column {".".join(parts)} not found in dataframe header {[fr.header() for _, fr in self.frames]}')
        raise PlanExecError('resolve', f'column {".".join(parts)} is ambiguous in dataframe header {[fr.header() for _, fr in self.frames]}')

    def ident(self, node):
        if self.frames is not None:
            if isinstance(node.parts[-1], A.Star):
                raise PlanExecError('print', 'qualified star outside the select list')
            alias, c = self.resolve(node)
            return f'{alias}.{q(c.phys)}'
        return '.'.join(q(p) for p in node.parts)

    # ------------------------------------------------------------ expressions
    def expr(self, n, ctx=None):
        if isinstance(n, A.Star):
            return '*'
        if isinstance(n, A.NullConstant):
            return 'NULL'
        if isinstance(n, A.Last):
            raise PlanExecError('print', 'LAST outside a time-series context')
        if isinstance(n, A.Constant):
            return lit(n.value)
        if isinstance(n, A.Identifier):
            return self.ident(n)
        if isinstance(n, A.Parameter):
            return self.param(n, ctx)
        if isinstance(n, A.BetweenOperation):
            a, b, c = (self.expr(x) for x in n.args)
            return f'({a} BETWEEN {b} AND {c})'
        if isinstance(n, A.UnaryOperation):
            return f'({n.op.upper()} {self.expr(n.args[0])})'
        if isinstance(n, (A.Exists, A.NotExists)):
            inner = n.query if hasattr(n, 'query') else n.args[0]
            if isinstance(inner, A.Parameter):
                # EXISTS <result>: true iff the result has rows
                v = inner.value
                if not isinstance(v, StepResult):
                    raise PlanExecError('print', f'unbound parameter {v!r}')
                has = len(self.interp.first_column(v)) > 0
                return '(1 = 1)' if has != isinstance(n, A.NotExists) else '(1 = 0)'
            sub = self.select(inner)
            return f'({"NOT " if isinstance(n, A.NotExists) else ""}EXISTS ({sub}))'
        if isinstance(n, A.BinaryOperation):
            op = n.op.upper()
            left = self.expr(n.args[0])
            right = self.expr(n.args[1], ctx='in' if op in ('IN', 'NOT IN') else None)
            if op in ('IN', 'NOT IN') and isinstance(n.args[1], A.Select):
                right = f'({self.select(n.args[1])})'
            elif op in ('IN', 'NOT IN') and not isinstance(n.args[1], (A.Tuple, A.Parameter)):
                right = f'({right})'      # a one-element list is parsed as a parenthesised expression
            return f'({left} {op} {right})'
        if isinstance(n, A.Function):
            if n.namespace:
                raise PlanExecError('print', f'user function {n.namespace}.{n.op}')
            args = ', '.join(self.expr(a) for a in n.args)
            if n.from_arg is not None:
                raise PlanExecError('print', 'function FROM-argument not executable in the reference engine')
            return f'{n.op}({"DISTINCT " if n.distinct else ""}{args})'
        if isinstance(n, A.WindowFunction):
            parts = []
            if n.partition:
                parts.append('PARTITION BY ' + ', '.join(self.expr(p) for p in n.partition))
            if n.order_by:
                parts.append('ORDER BY ' + ', '.join(self.order_item(o) for o in n.order_by))
            if n.modifier:
                parts.append(n.modifier)
            return f'{self.expr(n.function)} OVER ({" ".join(parts)})'
        if isinstance(n, A.Case):
            s = 'CASE'
            if n.arg is not None:
                s += ' ' + self.expr(n.arg)
            for cond, resv in n.rules:
                s += f' WHEN {self.expr(cond)} THEN {self.expr(resv)}'
            if n.default is not None:
                s += f' ELSE {self.expr(n.default)}'
            return f'({s} END)'
        if isinstance(n, A.TypeCast):
            t = str(n.type_name)
            if n.precision:
                t += '(' + ', '.join(str(p) for p in n.precision) + ')'
            return f'CAST({self.expr(n.arg)} AS {t})'
        if isinstance(n, A.Tuple):
            return '(' + ', '.join(self.expr(i) for i in n.items) + ')'
        if isinstance(n, (A.Select, A.Union, A.Intersect, A.Except)):
            return f'({self.select(n)})'
        raise PlanExecError('print', f'unsupported node {type(n).__name__}')

    def param(self, n, ctx):
        v = n.value
        if not isinstance(v, StepResult):
            raise PlanExecError('print', f'unbound parameter {v!r}')
        vals = self.interp.first_column(v)
        if ctx == 'in':
            return '(' + ', '.join(lit(x) for x in vals) + ')'
        if len(vals) == 0:
            return 'NULL'
        if len(vals) > 1:
            raise PlanExecError('param', f'scalar position filled by a result with {len(vals)} rows')
        return lit(vals[0])

    def order_item(self, o):
        f = o.field
        if isinstance(f, A.Identifier) and len(f.parts) == 1 and str(f.parts[0]).lower() in getattr(self, 'out_aliases', ()):
            s = q(self.out_aliases[str(f.parts[0]).lower()])     # ORDER BY may name an output column of the same SELECT
        else:
            s = self.expr(f)
        if str(o.direction).upper() in ('ASC', 'DESC'):
            s += ' ' + str(o.direction).upper()
        if str(o.nulls).upper() in ('NULLS FIRST', 'NULLS LAST'):
            s += ' ' + str(o.nulls).upper()
        return s

    # ------------------------------------------------------------ FROM
    def table(self, n):
        if isinstance(n, A.Identifier):
            parts = [str(p) for p in n.parts]
            if len(parts) == 1 and parts[0] in self.cte_names:
                s = q(parts[0])
            elif self.schema is not None:
                if len(parts) != 1:
                    # qualified by something the planner should have removed.  One sqlite connection stands for all
                    # integrations, so a reference to (another) integration would resolve here: refuse it explicitly
                    if parts[0].lower() in self.interp.integration_names():
                        raise PlanExecError('foreign-table', f'the query sent to integration {self.schema!r} refers to {".".join(parts)!r}: '
                                                             f'an integration can only see its own tables, without qualifier')
                    s = '.'.join(q(p) for p in parts)
                else:
                    s = f'{q(self.schema)}.{q(parts[0])}'
            else:
                s = '.'.join(q(p) for p in parts)
            if n.alias is not None:
                s += f' AS {q(n.alias.parts[-1])}'
            return s
        if isinstance(n, A.Join):
            left = self.table(n.left)
            right = self.table(n.right)
            if n.implicit:
                return f'{left}, {right}'
            jt = JOIN_SQL.get(str(n.join_type).upper())
            if jt is None:
                raise PlanExecError('print', f'unknown join type {n.join_type!r}')
            s = f'{left} {jt} {right}'
            if n.condition is not None:
                s += f' ON {self.expr(n.condition)}'
            return s
        if isinstance(n, (A.Select, A.Union, A.Intersect, A.Except)):
            s = f'({self.select(n)})'
            if n.alias is not None:
                s += f' AS {q(n.alias.parts[-1])}'
            return s
        raise PlanExecError('print', f'unsupported FROM element {type(n).__name__}')

    # ------------------------------------------------------------ SELECT
    def targets(self, node):
        out = []
        for t in node.targets:
            alias = t.alias.parts[-1] if getattr(t, 'alias', None) is not None else None
            if self.frames is not None:
                if isinstance(t, A.Star):
                    for al, fr in self.frames:
                        for c in fr.cols:
                            out.append(f'{al}.{q(c.phys)} AS {q(c.name)}')
                    continue
                if isinstance(t, A.Identifier) and isinstance(t.parts[-1], A.Star):
                    tag = str(t.parts[-2]).lower()
                    n0 = len(out)
                    for al, fr in self.frames:
                        for c in fr.cols:
                            if c.tag is not None and c.tag.lower() == tag:
                                out.append(f'{al}.{q(c.phys)} AS {q(c.name)}')
                    if len(out) == n0:
                        raise PlanExecError('resolve', f'{tag}.* matches no column')
                    continue
                if isinstance(t, A.Identifier):
                    out.append(f'{self.expr(t)} AS {q(alias or t.parts[-1])}')
                    continue
            else:
                if isinstance(t, A.Identifier) and isinstance(t.parts[-1], A.Star):
                    out.append('.'.join(q(p) for p in t.parts[:-1]) + '.*')
                    continue
            s = self.expr(t)
            if alias is not None:
                s += f' AS {q(alias)}'
            out.append(s)
        return out

    def select(self, node):
        if isinstance(node, (A.Union, A.Intersect, A.Except)):
            op = {'Union': 'UNION', 'Intersect': 'INTERSECT', 'Except': 'EXCEPT'}[type(node).__name__]
            if not node.unique:
                if op != 'UNION':
                    raise PlanExecError('print', f'{op} ALL is not available in the reference engine inside a fetch')
                op += ' ALL'
            return f'{self.select(node.left)} {op} {self.select(node.right)}'
        s = ''
        if getattr(node, 'cte', None):
            ctes = []
            for cte in node.cte:
                name = cte.name.parts[-1]
                ctes.append(f'{q(name)} AS ({self.select(cte.query)})')
                self.cte_names.add(name)
            s += 'WITH ' + ', '.join(ctes) + ' '
        saved = getattr(self, 'out_aliases', {})
        self.out_aliases = {str(t.alias.parts[-1]).lower(): str(t.alias.parts[-1]) for t in node.targets if getattr(t, 'alias', None) is not None}
        try:
            return s + self._select_body(node)
        finally:
            self.out_aliases = saved

    def _select_body(self, node):
        s = 'SELECT ' + ('DISTINCT ' if node.distinct else '') + ', '.join(self.targets(node))
        if self.frames is not None and node.from_table is None:
            s += ' FROM ' + self.frames_from
        elif node.from_table is not None:
            if self.frames is not None:
                raise PlanExecError('print', 'query over a dataframe has its own FROM')
            s += ' FROM ' + self.table(node.from_table)
        if node.where is not None:
            s += ' WHERE ' + self.expr(node.where)
        if node.group_by:
            s += ' GROUP BY ' + ', '.join(self.expr(g) for g in node.group_by)
        if node.having is not None:
            s += ' HAVING ' + self.expr(node.having)
        if node.order_by:
            s += ' ORDER BY ' + ', '.join(self.order_item(o) for o in node.order_by)
        if node.limit is not None:
            s += f' LIMIT {self.expr(node.limit)}'
            if node.offset is not None:
                s += f' OFFSET {self.expr(node.offset)}'
        elif node.offset is not None:
            s += f' LIMIT -1 OFFSET {self.expr(node.offset)}'
        return s


class Interp:
    def __init__(self, con, default_schema=None):
        self.con = con
        self.results = {}
        self.n = 0
        self.tmp = []
        self.default_schema = default_schema
        self.trace = []
        # an interpretation that was interrupted (per-case time guard) may have left temporary tables behind on this connection
        try:
            for (name,) in list(con.execute("select name from sqlite_temp_master where type = 'table' and name like 'df_%'")):
                con.execute(f'DROP TABLE IF EXISTS temp.{q(name)}')
        except Exception:
            pass

    # -------------------------------------------------------------- helpers
    def integration_names(self):
        if getattr(self, '_ints', None) is None:
            self._ints = {r[1].lower() for r in self.con.execute('PRAGMA database_list') if r[1].lower() not in ('main', 'temp')}
        return self._ints

    def cleanup(self):
        for t in self.tmp:
            try:
                self.con.execute(f'DROP TABLE IF EXISTS temp.{q(t)}')
            except Exception:
                pass
        self.tmp = []
        self.results = {}

    def materialise(self, sql, tags=None, names=None, where='step'):
        self.n += 1
        name = f'df_{self.n}'
        try:
            cur = self.con.execute(f'SELECT * FROM ({sql}) LIMIT 0')
            logical = [d[0] for d in cur.description]
            self.con.execute(f'CREATE TEMP TABLE {q(name)} AS {sql}')
        except Exception as e:
            raise PlanExecError(where, f'{type(e).__name__}: {e} in {sql!r}')
        self.tmp.append(name)
        phys = [r[1] for r in self.con.execute(f'PRAGMA temp.table_info({q(name)})')]
        if names is not None and len(names) == len(phys):
            logical = names
        if tags is None or len(tags) != len(phys):
            tags = [None] * len(phys)
        cols = [Col(t, str(l).split(':')[0] if l not in (None,) else p, p) for t, l, p in zip(tags, logical, phys)]
        return Frame(name, cols)

    def frame_of(self, ref, where):
        if isinstance(ref, S.PlanStep):
            ref = ref.result
        if not isinstance(ref, StepResult):
            raise PlanExecError(where, f'expected a step result, got {ref!r}')
        if ref.step_num not in self.results:
            raise PlanExecError(where, f'refers to the result of step {ref.step_num}, which has not been computed')
        return self.results[ref.step_num]

    def first_column(self, ref):
        fr = self.frame_of(ref, 'parameter')
        if not fr.cols:
            return []
        return [r[0] for r in self.con.execute(f'SELECT {q(fr.cols[0].phys)} FROM temp.{q(fr.table)}')]

    def rows(self, fr):
        return self.con.execute(f'SELECT {", ".join(q(c.phys) for c in fr.cols)} FROM temp.{q(fr.table)}').fetchall() if fr.cols else []

    # -------------------------------------------------------------- tags
    def fetch_tags(self, query, ncols):
        ft = query.from_table if isinstance(query, A.Select) else None
        if isinstance(ft, A.Identifier):
            tag = str(ft.alias.parts[-1]) if ft.alias is not None else str(ft.parts[-1])
            return [tag] * ncols
        return None

    def frame_query_tags(self, query, frames, table_name=None):
        tags = []
        for t in query.targets:
            if isinstance(t, A.Star):
                for _, fr in frames:
                    tags.extend(c.tag for c in fr.cols)
            elif isinstance(t, A.Identifier) and isinstance(t.parts[-1], A.Star):
                tg = str(t.parts[-2]).lower()
                for _, fr in frames:
                    tags.extend(c.tag for c in fr.cols if c.tag is not None and c.tag.lower() == tg)
            elif isinstance(t, A.Identifier):
                try:
                    _, c = Printer(self, frames=frames).resolve(t)
                    tags.append(c.tag)
                except PlanExecError:
                    tags.append(None)
            else:
                tags.append(None)
        if table_name is not None:
            tags = [table_name] * len(tags)
        return tags

    # -------------------------------------------------------------- steps
    def run_plan(self, steps):
        last = None
        for i, st in enumerate(steps):
            where = f'step {i} ({type(st).__name__})'
            fr = self.run_step(st, where)
            key = st.step_num if st.step_num is not None else i
            self.results[key] = fr
            last = fr
        return last

    def run_step(self, st, where):
        if isinstance(st, S.FetchDataframeStep):
            return self.fetch(st, where)
        if isinstance(st, S.JoinStep):
            return self.join(st, where)
        if isinstance(st, S.QueryStep):
            fr = self.frame_of(st.from_table, where)
            return self.frame_query(st.query, [('f', fr)], where)
        if isinstance(st, S.SubSelectStep):
            fr = self.frame_of(st.dataframe, where)
            return self.frame_query(st.query, [('f', fr)], where, table_name=st.table_name)
        if isinstance(st, S.UnionStep):
            return self.union(st, where)
        if isinstance(st, S.ProjectStep):
            fr = self.frame_of(st.dataframe, where)
            query = A.Select(targets=list(st.columns))
            return self.frame_query(query, [('f', fr)], where)
        if isinstance(st, S.LimitOffsetStep):
            fr = self.frame_of(st.dataframe, where)
            lim = st.limit.value if isinstance(st.limit, A.Constant) else st.limit
            off = st.offset.value if isinstance(st.offset, A.Constant) else st.offset
            sql = f'SELECT * FROM temp.{q(fr.table)} LIMIT {lim if lim is not None else -1}' + (f' OFFSET {off}' if off is not None else '')
            return self.materialise(sql, [c.tag for c in fr.cols], [c.name for c in fr.cols], where)
        if isinstance(st, S.MultipleSteps):
            frames = [self.run_step(s, where + '/sub') for s in st.steps]
            return self.concat(frames, where)
        if isinstance(st, S.MapReduceStep):
            return self.map_reduce(st, where)
        raise PlanExecError(where, f'step class {type(st).__name__} has no reference meaning here')

    def fetch(self, st, where):
        if st.raw_query is not None:
            raise PlanExecError(where, 'raw query')
        schema = st.integration
        p = Printer(self, schema=schema)
        sql = p.select(st.query)
        self.trace.append((where, schema, sql))
        fr = self.materialise(sql, None, None, where)
        tags = self.fetch_tags(st.query, len(fr.cols))
        if tags:
            for c, t in zip(fr.cols, tags):
                c.tag = t
        return fr

    def frame_query(self, query, frames, where, table_name=None):
        if not isinstance(query, A.Select):
            raise PlanExecError(where, f'query over a dataframe is a {type(query).__name__}')
        p = Printer(self, frames=frames)
        p.frame_name = table_name
        p.frames_from = ', '.join(f'temp.{q(fr.table)} AS {al}' for al, fr in frames)
        sql = p.select(query)
        self.trace.append((where, 'frame', sql))
        tags = self.frame_query_tags(query, frames, table_name)
        return self.materialise(sql, tags, None, where)

    def join(self, st, where):
        left = self.frame_of(st.left, where)
        right = self.frame_of(st.right, where)
        j = st.query
        jt = JOIN_SQL.get(str(j.join_type).upper())
        if jt is None:
            raise PlanExecError(where, f'unknown join type {j.join_type!r}')
        p = Printer(self, frames=[('l', left), ('r', right)])
        cols = [f'l.{q(c.phys)} AS {q("l" + str(i))}' for i, c in enumerate(left.cols)] + [f'r.{q(c.phys)} AS {q("r" + str(i))}' for i, c in enumerate(right.cols)]
        sql = f'SELECT {", ".join(cols)} FROM temp.{q(left.table)} AS l {jt} temp.{q(right.table)} AS r'
        if j.condition is not None:
            sql += f' ON {p.expr(j.condition)}'
        elif jt not in ('CROSS JOIN', 'JOIN', 'INNER JOIN'):
            sql += ' ON 1'
        self.trace.append((where, 'join', sql))
        fr = self.materialise(sql, [c.tag for c in left.cols] + [c.tag for c in right.cols], [c.name for c in left.cols] + [c.name for c in right.cols], where)
        return fr

    def union(self, st, where):
        left = self.frame_of(st.left, where)
        right = self.frame_of(st.right, where)
        if len(left.cols) != len(right.cols):
            raise PlanExecError(where, 'operands have different column counts')
        lsel = f'SELECT {", ".join(q(c.phys) for c in left.cols)} FROM temp.{q(left.table)}'
        rsel = f'SELECT {", ".join(q(c.phys) for c in right.cols)} FROM temp.{q(right.table)}'
        op = str(st.operation).upper()
        if op == 'UNION' or st.unique:
            sql = f'{lsel} {op}{"" if st.unique else " ALL"} {rsel}'
            return self.materialise(sql, [c.tag for c in left.cols], [c.name for c in left.cols], where)
        # INTERSECT ALL / EXCEPT ALL by multiset algebra
        lrows = collections.Counter(self.con.execute(lsel).fetchall())
        rrows = collections.Counter(self.con.execute(rsel).fetchall())
        res = (lrows & rrows) if op == 'INTERSECT' else (lrows - rrows)
        rows = list(res.elements())
        return self.from_rows(rows, left, where)

    def from_rows(self, rows, like, where):
        self.n += 1
        name = f'df_{self.n}'
        cols = [f'c{i}' for i in range(len(like.cols))]
        self.con.execute(f'CREATE TEMP TABLE {q(name)} ({", ".join(cols)})')
        self.tmp.append(name)
        if rows:
            self.con.executemany(f'INSERT INTO temp.{q(name)} VALUES ({", ".join("?" * len(cols))})', rows)
        return Frame(name, [Col(c.tag, c.name, p) for c, p in zip(like.cols, cols)])

    def concat(self, frames, where):
        if not frames:
            raise PlanExecError(where, 'no sub-steps')
        rows = []
        for fr in frames:
            if len(fr.cols) != len(frames[0].cols):
                raise PlanExecError(where, 'sub-step results have different shapes')
            rows.extend(self.rows(fr))
        return self.from_rows(rows, frames[0], where)

    def map_reduce(self, st, where):
        vals = self.frame_of(st.values, where)
        vrows = self.rows(vals)
        names = [c.name for c in vals.cols]
        sub = st.step
        frames = []
        import copy
        for r in vrows:
            env = dict(zip(names, r))
            steps = sub if isinstance(sub, list) else [sub]
            fr = None
            for s in steps:
                s2 = copy.deepcopy(s)
                substitute_vars(s2, env)
                fr = self.run_step(s2, where + '/map')
            frames.append(fr)
        if not frames:
            # empty input: an empty frame shaped like one evaluation with NULL variables
            env = {n: None for n in names}
            steps = sub if isinstance(sub, list) else [sub]
            s2 = copy.deepcopy(steps[-1])
            substitute_vars(s2, env)
            fr = self.run_step(s2, where + '/map-empty')
            return self.from_rows([], fr, where)
        return self.concat(frames, where)


def substitute_vars(step, env):
    """replace Constant('$var[name]') placeholders inside the step's queries"""
    from vf import reflect
    for node, path in list(reflect.walk(step, want=lambda o: isinstance(o, A.Constant))):
        v = node.value
        if isinstance(v, str) and v.startswith('$var[') and v.endswith(']'):
            key = v[5:-1]
            if key not in env:
                raise PlanExecError('map', f'variable {key} not provided by the values step')
            node.value = env[key]
            if env[key] is None:
                node.__class__ = A.NullConstant

"""C18 - copies are independent; equality of trees, steps and plans is lawful.

Trees: every accepted production-pair sentence of the three dialects (thorough: + edge cover); plans:
plan_query over a fixed two-integration catalog for every such Select/Union/DML tree.  For each tree
every single mutation of a copy (every attribute of every node set to a sentinel, list append/delete,
dict value replaced, parts element changed); oracle via reflective identity sets and fingerprints.
"""
import copy

from mindsdb_sql.parser import ast as A
from mindsdb_sql.parser.ast.base import ASTNode
from mindsdb_sql.planner import plan_query
from mindsdb_sql.planner.query_plan import QueryPlan
from mindsdb_sql.planner.step_result import Result as StepResult
from mindsdb_sql.planner.steps import PlanStep

from vf import gsx, histories, parsing, reflect
from vf.runner import Check, Result, exc_sig

SENT = '__sentinel__'
PRED_META = [{'name': 'pred', 'integration_name': 'mindsdb', 'timeseries': False}]


def safe_print(t):
    try:
        return str(t), t.to_tree()
    except Exception:
        return None


class CHECK(Check):
    pid = 'C18'
    level = 'exploration'
    assumptions = ['"prints" = str() and to_tree(); trees whose printing itself crashes are judged on copy structure only (printing is C01)',
                   'objects the parser itself shares between two slots of one tree (Exists.args/query) are not counted as copy sharing']

    def setup(self, tier, seed):
        self.tier, self.seed = tier, seed
        self.models = {d: gsx.Model(d) for d in gsx.DIALECTS}
        self.fams = {d: gsx.Families(m, 1) for d, m in self.models.items()}

    def cases(self):
        out = []
        for d, m in self.models.items():
            f = self.fams[d]
            sents = set(f.s0_pairs()) | set(f.s0_sibling_pairs())
            if self.tier == 'thorough':
                sents |= set(f.s0_edges())
            for s in sorted(sents):
                if any(t not in m.lexeme for t in s) or not m.simulate(s)[0]:
                    continue
                out.append((d, m.text_of(s, numbered=True)))
            # names and literals that constructors might normalise (edge blanks, inner dots, capitals, quotes): one respelt lexeme per
            # production-pair sentence and class (a copy rebuilt through a constructor must still equal the parsed tree)
            from vf import lexemes
            edge = {'ID': ['` a`', '`a `', '`a.b`', '`A b`', '`a``b`'], 'DQUOTE_STRING': ['" a "', '"a.b"', '" "', '"A"'], 'QUOTE_STRING': ["' a '", "''", "'a''b'"],
                    'VARIABLE': ['@` a `', "@'a.b'"], 'INTEGER': ['007'], 'FLOAT': ['1.50']}
            for s in sorted(set(f.s0_pairs())):
                if any(t not in m.lexeme for t in s) or not m.simulate(s)[0]:
                    continue
                for i, sp, text in lexemes.deviations(m, s, alts=edge, per_class_first_only=True, magic=False):
                    out.append((d, text))
            # USING / SET option lists with the key names that grammar actions and printers treat specially
            for text in f.kw_family(['abc'] + lexemes.MAGIC_IDS):
                out.append((d, text))
            for t in ['select t.* from t', 'select * from int1.t1 join int2.t2 on t1.a = t2.a where t1.b = 1',
                      'select * from int1.t1 where a in (select b from int2.t2)', 'select t.a, pred.p from int1.t1 as t join mindsdb.pred', "select * from int1.t1 as t join mindsdb.pred where t.a > '2020-01-01'",
                      'select * from int1.t1 as t join mindsdb.pred where t.a > 5', 'select * from mindsdb.pred join int1.t1 as t where t.a > latest',
                      'select a from int1.t1 union select b from int2.t2', 'insert into int1.t1 (a) select b from int2.t2',
                      'create table int1.t (a int, b text)', 'select int1.t1.* from int1.t1', 'select `a b`.* from t `a b`']:
                out.append((d, t))
        return out

    def run(self, case):
        res = Result()
        d, text = case
        out = parsing.outcome(text, d)
        if out.kind != 'ok':
            res.count('not_accepted')
            return res
        t = out.value
        res.count('trees')
        res.key(reflect.fingerprint(t))
        self.check_tree(res, t, text)
        if isinstance(t, (A.Select, A.Union, A.Insert, A.Update, A.Delete, A.CreateTable)):
            try:
                plan = plan_query(copy.deepcopy(t), integrations=['int1', 'int2'], predictor_metadata=copy.deepcopy(PRED_META), default_namespace='mindsdb')
            except Exception:
                plan = None
            if plan is not None:
                res.count('plans')
                self.check_plan(res, plan, copy.deepcopy(t), text)
        return res

    # ------------------------------------------------------------------
    def check_tree(self, res, t, text):
        root = type(t).__name__
        fp0 = reflect.fingerprint(t)
        c0 = None
        try:
            c0 = t.copy()
        except Exception:
            pass
        printed = safe_print(t)
        fp = reflect.fingerprint(t)
        if fp != fp0:
            # printing is read-only: a copy taken before must still be structurally equal to the printed original
            res.violation(f'printing-changes-the-tree|{root}|{fp_diff(fp0, fp)}', f'{text!r}: str() / to_tree() changed the tree at {fp_diff(fp0, fp)}')
        elif c0 is not None and reflect.fingerprint(c0) != fp:
            res.violation(f'copy-not-structurally-equal-after-printing|{root}', f'{text!r}: a copy taken before printing differs from the printed original')
        for how, fn in (('copy', lambda x: x.copy()), ('deepcopy', copy.deepcopy)):
            try:
                c = fn(t)
            except Exception as e:
                res.violation(f'{how}-crash|{exc_sig(e)}', f'{text!r}: {how} raised {e!r}')
                continue
            if reflect.fingerprint(c) != fp:
                diff = fp_diff(fp, reflect.fingerprint(c))
                res.violation(f'{how}-not-structurally-equal|{diff}', f'{text!r}: {how} differs structurally at {diff}')
            if printed is not None:
                pc = safe_print(c)
                if pc != printed:
                    res.violation(f'{how}-prints-differently|{root}', f'{text!r}: {how} prints {pc and pc[0]!r} vs {printed[0]!r}')
                try:
                    eq = (c == t)
                    if eq is not True:
                        res.violation(f'{how}-not-equal|{root}', f'{text!r}: {how}() == original gives {eq!r}')
                except Exception as e:
                    res.violation(f'eq-crash|{exc_sig(e)}', f'{text!r}: == raised {e!r}')
            # sharing of mutable objects
            ids_t = reflect.mutable_ids(t)
            ids_c = reflect.mutable_ids(c)
            for i, p in ids_c.items():
                if i in ids_t:
                    obj_path = p
                    own, field = reflect.owner(c, obj_path) if obj_path else (None, None)
                    kind = type(reflect.get_at(c, obj_path)).__name__
                    res.violation(f'{how}-shares-mutable|{type(own).__name__}.{field}|{kind}',
                                  f'{text!r}: {how} shares the {kind} at {reflect.path_str(obj_path)} with the original')
                    break
        # mutations of a copy must not change the original
        if printed is None:
            return
        base = t.copy()
        paths = list(reflect.mutable_ids(base).values())
        nmut = 0
        for p in paths:
            obj = reflect.get_at(base, p)
            muts = []
            if isinstance(obj, list):
                muts = [('append', None), ('delete', None)] + [('setitem', i) for i in range(len(obj))]
            elif isinstance(obj, dict):
                muts = [('setkey', k) for k in list(obj)] + [('newkey', None)]
            elif reflect.is_obj(obj):
                muts = [('setattr', f) for f in vars(obj)]
            for kind, arg in muts:
                c = t.copy()
                o = reflect.get_at(c, p)
                try:
                    if kind == 'append':
                        o.append(SENT)
                    elif kind == 'delete':
                        if not o:
                            continue
                        del o[-1]
                    elif kind == 'setitem':
                        o[arg] = SENT
                    elif kind == 'setkey':
                        o[arg] = SENT
                    elif kind == 'newkey':
                        o[SENT] = SENT
                    else:
                        setattr(o, arg, SENT)
                except Exception:
                    continue
                nmut += 1
                if reflect.fingerprint(t) != fp:
                    own, field = (o, arg) if kind == 'setattr' else reflect.owner(c, p)
                    res.violation(f'mutating-copy-changes-original|{type(own).__name__}.{field}',
                                  f'{text!r}: {kind} on copy at {reflect.path_str(p)} changed the original')
                    # restore for further checks is impossible; stop here
                    return
        res.count('mutations', nmut)
        # equality laws on (tree, single-mutation variants) and across kinds
        self.eq_laws(res, t, text)

    def eq_laws(self, res, t, text):
        others = [t.copy(), None, 'x', str(t), 1, StepResult(0), A.Identifier('zz'), QueryPlan()]
        try:
            if (t == t) is not True:
                res.violation(f'eq-not-reflexive|{type(t).__name__}', f'{text!r}: x == x is {(t == t)!r}')
        except Exception as e:
            res.violation(f'eq-crash|{exc_sig(e)}', f'{text!r}: x == x raised {e!r}')
            return
        # variants: change alias / parentheses / first list
        v = t.copy()
        v.parentheses = not v.parentheses
        others.append(v)
        for o in others:
            try:
                a = (t == o)
                b = (o == t)
            except Exception as e:
                res.violation(f'eq-crash|{exc_sig(e)}', f'{text!r}: comparison with {type(o).__name__} raised {e!r}')
                continue
            if a not in (True, False) or b not in (True, False):
                res.violation(f'eq-not-boolean|{type(t).__name__}|{type(o).__name__}', f'{text!r}: == returned {a!r} / {b!r}')
            elif a != b:
                res.violation(f'eq-not-symmetric|{type(t).__name__}|{type(o).__name__}', f'{text!r}: (x == y) is {a} but (y == x) is {b}')
            if a is True and isinstance(o, ASTNode):
                if str(o) != str(t):
                    res.violation(f'equal-but-prints-differently|{type(t).__name__}', f'{text!r}: equal objects print {str(t)!r} and {str(o)!r}')

    # ------------------------------------------------------------------
    def check_plan(self, res, plan, tree, text):
        try:
            plan2 = plan_query(copy.deepcopy(tree), integrations=['int1', 'int2'], predictor_metadata=copy.deepcopy(PRED_META), default_namespace='mindsdb')
        except Exception as e:
            return
        res.covered('step_classes', tuple(sorted({type(s).__name__ for s in plan.steps})))
        for s in plan.steps:
            res.covered('step_class', type(s).__name__)
        try:
            steps_equal = len(plan.steps) == len(plan2.steps) and all((a == b) is True for a, b in zip(plan.steps, plan2.steps))
        except Exception as e:
            res.violation(f'step-eq-crash|{exc_sig(e)}', f'{text!r}: comparing the steps of two plans of the same query raised {e!r}')
            return
        try:
            r = (plan == plan)
            if r is not True:
                res.violation('plan-eq-not-reflexive', f'{text!r}: plan == plan gives {r!r}')
            if steps_equal:
                r2 = (plan == plan2)
                if r2 is not True:
                    res.violation('plans-from-equal-steps-not-equal', f'{text!r}: two plans built from pairwise equal steps compare {r2!r}')
            for o in (None, 'x', plan.steps, QueryPlan()):
                a, b = (plan == o), (o == plan)
                if a not in (True, False) or b not in (True, False):
                    res.violation(f'plan-eq-not-boolean|{type(o).__name__}', f'{text!r}: plan == {type(o).__name__} gives {a!r}/{b!r}')
                elif a != b:
                    res.violation(f'plan-eq-not-symmetric|{type(o).__name__}', f'{text!r}')
        except Exception as e:
            res.violation(f'plan-eq-crash|{exc_sig(e)}', f'{text!r}: {e!r}')
        # equal plans print the same: a plan against its variants (last step dropped, a step appended, two steps swapped, one step replaced)
        variants = []
        if plan.steps:
            v = copy.deepcopy(plan)
            del v.steps[-1]
            variants.append(('prefix', v))
            v = copy.deepcopy(plan)
            v.steps.append(copy.deepcopy(plan.steps[0]))
            variants.append(('extended', v))
        if len(plan.steps) >= 2:
            v = copy.deepcopy(plan)
            v.steps[-1] = copy.deepcopy(plan.steps[0])
            variants.append(('last-replaced', v))
            v = copy.deepcopy(plan)
            v.steps[0], v.steps[-1] = v.steps[-1], v.steps[0]
            variants.append(('swapped', v))
        for vk, v in variants:
            try:
                a, b = (plan == v), (v == plan)
            except Exception as e:
                res.violation(f'plan-eq-crash|{exc_sig(e)}', f'{text!r}: comparing a plan with its {vk} variant raised {e!r}')
                continue
            if a not in (True, False) or b not in (True, False):
                res.violation(f'plan-eq-not-boolean|variant-{vk}', f'{text!r}: {a!r}/{b!r}')
            elif a != b:
                res.violation(f'plan-eq-not-symmetric|variant-{vk}', f'{text!r}: plan == {vk} variant is {a}, the converse is {b}')
            elif a is True and histories.canon(repr(plan.steps)) != histories.canon(repr(v.steps)):
                res.violation(f'equal-plans-print-differently|variant-{vk}', f'{text!r}: a plan compares equal to its {vk} variant:\n    {plan.steps}\n    {v.steps}')
        for s, s2 in zip(plan.steps, plan2.steps):
            try:
                if (s == s) is not True:
                    res.violation(f'step-eq-not-reflexive|{type(s).__name__}', f'{text!r}: step == step is {(s == s)!r}')
                for o in (None, 'x', s2, StepResult(0), copy.deepcopy(s)):
                    a, b = (s == o), (o == s)
                    if a not in (True, False) or b not in (True, False):
                        res.violation(f'step-eq-not-boolean|{type(s).__name__}|{type(o).__name__}', f'{text!r}: {a!r}/{b!r}')
                    elif a != b:
                        res.violation(f'step-eq-not-symmetric|{type(s).__name__}|{type(o).__name__}', f'{text!r}: {a} vs {b}')
                d = copy.deepcopy(s)
                if (d == s) is not True:
                    res.violation(f'step-deepcopy-not-equal|{type(s).__name__}', f'{text!r}')
            except Exception as e:
                res.violation(f'step-eq-crash|{exc_sig(e)}', f'{text!r}: {e!r}')
        # steps of the same statement planned under another catalog (the model is a time-series model there): equal steps must print the same
        try:
            plan_ts = plan_query(copy.deepcopy(tree), integrations=['int1', 'int2'], default_namespace='mindsdb',
                                 predictor_metadata=[{'name': 'pred', 'integration_name': 'mindsdb', 'timeseries': True, 'order_by_column': 'a', 'group_by_columns': [], 'window': 2}])
        except Exception:
            plan_ts = None
        if plan_ts is not None:
            for s1 in plan.steps:
                for s2 in plan_ts.steps:
                    try:
                        a, b = (s1 == s2), (s2 == s1)
                    except Exception as e:
                        res.violation(f'step-eq-crash|{exc_sig(e)}', f'{text!r}: {e!r}')
                        continue
                    if a not in (True, False) or b not in (True, False) or a != b:
                        res.violation(f'step-eq-not-symmetric|{type(s1).__name__}|{type(s2).__name__}', f'{text!r}: {a!r} vs {b!r}')
                    elif a is True and histories.canon(repr(s1)) != histories.canon(repr(s2)):
                        res.violation(f'equal-steps-print-differently|{type(s1).__name__}|{type(s2).__name__}', f'{text!r}: {s1!r} == {s2!r}')
            res.count('cross_catalog_step_pairs', len(plan.steps) * len(plan_ts.steps))
        # Result laws
        for r in (StepResult(0), StepResult(3)):
            try:
                h = hash(r)
                if hash(StepResult(r.step_num)) != h:
                    res.violation('result-hash-disagrees-with-eq', '')
            except Exception as e:
                res.violation(f'result-hash-crash|{type(e).__name__}', f'hash(Result({r.step_num})) raised {e!r}')
            if (r == StepResult(r.step_num)) is not True or (r == StepResult(r.step_num + 1)) is not False or (r == None) is not False:  # noqa: E711
                res.violation('result-eq-law', '')

    def coverage(self, agg):
        return {'exhaustive': True, 'step_classes_in_plans': sorted(agg['cover'].get('step_class', ())),
                'rule': 'every accepted production-pair sentence (thorough: + edge cover) of 3 dialects + hand-kept shapes; per tree: copy(), deepcopy, '
                        'every single mutation of every mutable object of a copy, equality laws against 9 partner kinds; per plannable tree: plan equality '
                        'laws; distinct_nontrivial = distinct tree fingerprints'}

    def describe_case(self, case):
        return {'dialect': case[0], 'text': case[1]}


def fp_diff(a, b, path=''):
    """first differing position between two fingerprints (as a short path)"""
    if a == b:
        return ''
    if type(a) != type(b) or not isinstance(a, tuple) or len(a) != len(b) or (a and b and a[0] != b[0] and isinstance(a[0], str)):
        return path or '.'
    for i, (x, y) in enumerate(zip(a, b)):
        if x != y:
            if isinstance(x, tuple) and len(x) == 2 and isinstance(x[0], str) and isinstance(y, tuple) and len(y) == 2 and x[0] == y[0]:
                return fp_diff(x[1], y[1], f'{a[0]}.{x[0]}')
            if isinstance(x, tuple):
                return fp_diff(x, y, path)
            return path or '.'
    return path

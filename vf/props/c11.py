"""C11 - a query on one SQL integration is pushed down whole and unchanged in meaning.

The SELECT feature model of C06 (joins of every kind, sub-queries, CTEs, set operations, window
functions, grouping, ordering) restricted to one integration, plus alias / qualifier-spelling /
star shapes that collide with the integration name, and the negative space (models, project
objects, namespaced functions, files/views, api integrations) where a single fetch must NOT happen.
Oracle: plan == [FetchDataframeStep(int1)]; the fetch tree equals the original tree with only the
integration qualifier removed (aliases equal to the natural output name are ignored); executing the
fetch on that integration returns the same rows and column names as the original text.
"""
import copy
import re

from mindsdb_sql.exceptions import PlanningException
from mindsdb_sql.parser import ast as A
from mindsdb_sql.planner import plan_query, steps as S

from vf import parsing, planx, qgen, reflect, sqlref
from vf.props import c06
from vf.runner import Check, Result, exc_sig

ATTACH = {'int1': ['t1', 't2', 't3']}
CATALOGS = {
    'names': dict(integrations=['int1', 'int2']),
    'dicts': dict(integrations=[{'name': 'int1', 'type': 'data'}, {'name': 'int2', 'type': 'data'}], default_namespace='mindsdb'),
    'default_int1': dict(integrations=['int1', 'int2'], default_namespace='int1'),
    # the optional class_type key present with None / with the value sql
    'class_type_none': dict(integrations=[{'name': 'int1', 'type': 'data', 'class_type': None}, {'name': 'int2', 'type': 'data', 'class_type': None}]),
    'class_type_sql': dict(integrations=[{'name': 'int1', 'type': 'data', 'class_type': 'sql'}, {'name': 'int2', 'type': 'data', 'class_type': 'sql'}], default_namespace='mindsdb'),
    # a project that owns models named like tables (and like schema.table paths) of the integration
    'colliding_models': dict(integrations=['int1', 'int2', {'name': 'sch', 'type': 'project'}, {'name': 'mindsdb', 'type': 'project'}], default_namespace='mindsdb',
                             predictor_metadata=[dict(name='t1', integration_name='sch'), dict(name='t3', integration_name='sch'), dict(name='t1', integration_name='mindsdb')]),
}

EXTRA = [
    # label, sql (already qualified), order spec, limit, offset
    ('qualified_columns', 'SELECT int1.t1.id, int1.t1.a FROM int1.t1 WHERE int1.t1.a = 1'),
    ('alias_is_integration', 'SELECT int1.id, int1.a FROM int1.t1 AS int1'),
    ('alias_is_integration_join', 'SELECT int1.id, t3.c FROM int1.t1 AS int1 JOIN int1.t3 ON int1.id = t3.id'),
    ('column_alias_is_integration', 'SELECT t1.a AS int1 FROM int1.t1'),
    ('upper_qualifier', 'SELECT t1.id FROM INT1.t1'),
    ('mixed_qualifier_join', 'SELECT t1.id, t3.c FROM Int1.t1 JOIN INT1.t3 ON t1.id = t3.id'),
    ('qualified_star', 'SELECT int1.t1.* FROM int1.t1'),
    ('table_star', 'SELECT t1.* FROM int1.t1'),
    ('star_join', 'SELECT t1.*, t3.c FROM int1.t1 JOIN int1.t3 ON t1.id = t3.id'),
    ('bare_columns', 'SELECT id, a FROM int1.t1 WHERE a = 1'),
    ('bare_expr', 'SELECT a + 1, id FROM int1.t1'),
    ('subquery_targets', 'SELECT id, (SELECT max(t3.c) FROM int1.t3) FROM int1.t1'),
    ('nested_bare', 'SELECT id FROM (SELECT id, a FROM int1.t1) AS s WHERE a = 1'),
    ('nested_alias_is_integration', 'SELECT int1.id FROM (SELECT id, a FROM int1.t1) AS int1'),
    ('in_subquery_same', 'SELECT id FROM int1.t1 WHERE id IN (SELECT id FROM int1.t3)'),
    ('union_same', 'SELECT id FROM int1.t1 UNION SELECT id FROM int1.t3'),
    ('cte_same', 'WITH q AS (SELECT id, a FROM int1.t1) SELECT q.id FROM q JOIN int1.t3 ON q.id = t3.id'),
    ('case_subquery_same', 'SELECT CASE WHEN a = (SELECT max(c) FROM int1.t3) THEN 1 ELSE 0 END AS k, id FROM int1.t1'),
    ('window_same', 'SELECT id, sum(x) OVER (PARTITION BY a ORDER BY id) AS s FROM int1.t1'),
    ('group_bare', 'SELECT a, count(*) AS n FROM int1.t1 GROUP BY a HAVING count(*) > 0 ORDER BY a'),
    ('column_named_like_table', 'SELECT t1.id AS t1 FROM int1.t1'),
    ('three_part_in_where_only', 'SELECT id FROM int1.t1 WHERE int1.t1.x > 10 ORDER BY int1.t1.id'),
    # names of CTEs / aliases with upper-case letters (they must not be mistaken for objects of the default namespace)
    ('cte_upper', 'WITH Recent AS (SELECT id, a FROM int1.t1) SELECT Recent.id FROM Recent'),
    ('cte_upper_join', 'WITH Q AS (SELECT id, a FROM int1.t1) SELECT Q.id FROM Q JOIN int1.t3 ON Q.id = t3.id'),
    ('cte_upper_in_subquery', 'WITH Recent AS (SELECT id FROM int1.t3) SELECT id FROM int1.t1 WHERE id IN (SELECT id FROM Recent)'),
    ('cte_two_mixed_case', 'WITH a1 AS (SELECT id FROM int1.t1), B2 AS (SELECT id FROM int1.t3) SELECT a1.id FROM a1 JOIN B2 ON a1.id = B2.id'),
    ('cte_lower_in_subquery', 'WITH recent AS (SELECT id FROM int1.t3) SELECT id FROM int1.t1 WHERE id IN (SELECT id FROM recent)'),
    # schema-qualified tables inside the integration (the last two parts may coincide with project.model of the catalog)
    ('three_part_where', 'SELECT id FROM int1.sch.t1 WHERE a = 1'),
    ('three_part_group', 'SELECT a, count(*) AS n FROM int1.sch.t1 GROUP BY a'),
    ('three_part_in_subquery', 'SELECT id FROM int1.sch.t3 WHERE id IN (SELECT id FROM int1.sch.t1)'),
    ('three_part_join', 'SELECT t1.id FROM int1.sch.t1 JOIN int1.sch.t3 ON t1.id = t3.id'),
    ('alias_upper', 'SELECT T.id FROM int1.t1 AS T WHERE T.a = 1'),
    ('nested_alias_upper', 'SELECT S.id FROM (SELECT id FROM int1.t1) AS S'),
    ('join_aliases_upper', 'SELECT A.id, B.c FROM int1.t1 AS A JOIN int1.t3 AS B ON A.id = B.id'),
]

# column names that need quoting (a dot, a blank, a keyword, capitals, a leading digit, non-ASCII letters, a quote inside) in
# every position where the planner touches column identifiers (bare / qualified target, expression, WHERE, GROUP / ORDER BY)
ODD_NAMES = ['`a.b`', '`a b`', '`select`', '`Ab`', '`1a`', '`größe`', '`a.b.c`', '`int1.a`', '`t1.a`', '`a``b`' if False else '`a-b`', '`*`']
for _i, _n in enumerate(ODD_NAMES):
    EXTRA += [
        (f'odd_column_{_i}_bare', f'SELECT {_n} FROM int1.t1'),
        (f'odd_column_{_i}_two', f'SELECT {_n}, id FROM int1.t1 WHERE {_n} = 1'),
        (f'odd_column_{_i}_qualified', f'SELECT t1.{_n} FROM int1.t1'),
        (f'odd_column_{_i}_full', f'SELECT int1.t1.{_n} FROM int1.t1 ORDER BY int1.t1.{_n}'),
        (f'odd_column_{_i}_expr', f'SELECT {_n} + 1, max({_n}) FROM int1.t1 GROUP BY {_n}'),
        (f'odd_column_{_i}_aliased', f'SELECT {_n} AS {_n} FROM int1.t1 AS {_n}' if False else f'SELECT id AS {_n} FROM int1.t1'),
        (f'odd_column_{_i}_nested', f'SELECT {_n} FROM (SELECT {_n} FROM int1.t1) AS s'),
        (f'odd_column_{_i}_join', f'SELECT t1.{_n}, t3.{_n} FROM int1.t1 JOIN int1.t3 ON t1.{_n} = t3.{_n}'),
    ]

# tables written without the integration qualifier: only meaningful when the integration is the default namespace
EXTRA_DEFAULT_NS = [
    ('unqualified', 'SELECT id FROM t1 WHERE a = 1'),
    ('unqualified_schema_path', 'SELECT id FROM sch.t1 WHERE a = 1'),
    ('unqualified_catalog_schema_path', 'SELECT id FROM warehouse.sales.t1 WHERE a = 1'),
    ('unqualified_catalog_schema_path_join', 'SELECT t1.id FROM warehouse.sales.t1 JOIN int1.t3 ON t1.id = t3.id'),
    ('unqualified_four_parts', 'SELECT id FROM a.b.c.t1'),
    ('unqualified_union', 'SELECT id FROM t1 UNION SELECT id FROM t3'),
]

NEGATIVE = [
    ('model_join', 'SELECT * FROM int1.t1 JOIN mindsdb.pred'),
    ('model_only', 'SELECT * FROM mindsdb.pred WHERE a = 1'),
    ('project_table', 'SELECT * FROM int1.t1 JOIN proj.tbl ON t1.id = tbl.id'),
    ('project_only', 'SELECT * FROM proj.tbl'),
    ('namespaced_function', 'SELECT mindsdb.fn(a) FROM int1.t1'),
    ('llm_function', 'SELECT llm(a) FROM int1.t1'),
    ('files', 'SELECT * FROM files.f'),
    ('files_join', 'SELECT * FROM files.f JOIN files.g ON f.id = g.id'),
    ('views', 'SELECT * FROM views.v'),
    ('api_integration', 'SELECT id, a FROM apidb.t1 WHERE a = 1 ORDER BY id LIMIT 2'),
    ('api_join', 'SELECT * FROM apidb.t1 JOIN apidb.t3 ON t1.id = t3.id'),
    ('two_integrations', 'SELECT * FROM int1.t1 JOIN int2.t2 ON t1.id = t2.id'),
    ('native_query', 'SELECT * FROM int1 (select 1)'),
    ('model_in_subquery', 'SELECT * FROM int1.t1 WHERE id IN (SELECT id FROM mindsdb.pred WHERE a = 1)'),
]
NEG_CATALOG = dict(integrations=[{'name': 'int1', 'type': 'data'}, {'name': 'int2', 'type': 'data'}, {'name': 'files', 'type': 'data'}, {'name': 'views', 'type': 'data'},
                                 {'name': 'apidb', 'type': 'data', 'class_type': 'api'}, {'name': 'proj', 'type': 'project'}],
                   predictor_metadata=[dict(name='pred', integration_name='mindsdb')], default_namespace='mindsdb')


# integration names that contain / resemble the names the planner treats specially (files, views, the project, the system
# schemas), or are spelt with capitals in the catalog: a single-integration query must be pushed down under every name
INT_NAMES = ['pageviews', 'datafiles', 'files2', 'my_views', 'mindsdb_db', 'information_schema2', 'Int1', 'INT1', 'log', 'tables']


def rename(obj, name):
    """int1 -> name in a text / catalog (spellings INT1 / Int1 of the text follow as upper case / capitalised)"""
    if isinstance(obj, str):
        def sub(mo):
            w = mo.group(0)
            return name.upper() if w == 'INT1' else name.capitalize() if w == 'Int1' else name
        return re.sub(r'\b(int1|INT1|Int1)\b', sub, obj)
    if isinstance(obj, dict):
        return {k: rename(v, name) for k, v in obj.items()}
    if isinstance(obj, list):
        return [rename(v, name) for v in obj]
    return obj


def qualify(sql, default=False):
    if default:
        return sql
    sql = re.sub(r'\b(FROM|JOIN)\s+(t[123])\b', r'\1 int1.\2', sql)
    return re.sub(r'(FROM int1\.t[123](?: AS \w+)?)\s*,\s+(t[123])\b', r'\1, int1.\2', sql)


def strip_qualifier(tree, iname='int1'):
    """the expected fetch tree: the original with the integration qualifier removed everywhere"""
    t = copy.deepcopy(tree)
    for idn, path in reflect.walk(t, want=lambda o: isinstance(o, A.Identifier)):
        if len(idn.parts) > 1 and isinstance(idn.parts[0], str) and idn.parts[0].lower() == iname.lower():
            idn.parts = idn.parts[1:]
    return t


def drop_natural_aliases(tree):
    t = copy.deepcopy(tree)
    for sel, _ in reflect.walk(t, want=lambda o: isinstance(o, A.Select)):
        for tg in sel.targets:
            if isinstance(tg, A.Identifier) and tg.alias is not None and isinstance(tg.parts[-1], str) and [str(p) for p in tg.alias.parts] == [tg.parts[-1]]:
                tg.alias = None
    return t


class CHECK(Check):
    pid = 'C11'
    level = 'exploration'
    case_timeout = 900      # one case = one statement / plan on every database of the tier
    assumptions = ['sqlite 3.40 is the reference engine', 'an alias equal to the natural output name of a bare column is not a change of the query']

    def setup(self, tier, seed):
        self.tier, self.seed = tier, seed
        self.init_dbs(tier)
        self.cons = None

    def init_dbs(self, tier):
        """thorough: all databases for cases with <= 1 non-default feature(s), the quick database set for the others"""
        self.dbs = sqlref.databases(tier)
        self.narrow = None
        self.active = None
        if tier == 'thorough':
            keyf = lambda db: repr(sorted(db.items()))
            pos = {keyf(db): i for i, db in enumerate(self.dbs)}
            self.narrow = []
            for db in sqlref.databases('quick'):
                k = keyf(db)
                if k not in pos:
                    pos[k] = len(self.dbs)
                    self.dbs.append(db)
                self.narrow.append(pos[k])

    def db_iter(self):
        idx = self.active if self.active is not None else range(len(self.dbs))
        for i in idx:
            yield self.cons[i], self.dbs[i]

    def choose_dbs(self, nondefault):
        self.active = self.narrow if (self.narrow is not None and nondefault > 1) else None

    def cases(self):
        d = 3 if self.tier == 'thorough' else 2
        out = []
        for a in qgen.assignments(c06.FEATURES, d, full_products=[('join', 'where'), ('join', 'targets'), ('wrap', 'order', 'limit'), ('join', 'order', 'limit')]):
            if c06.build(a) is not None:
                for cat in (('names',) if self.tier == 'quick' else tuple(CATALOGS)):
                    if cat.startswith('class_type') and sum(1 for n in c06.FEATURES if a[n]) > 2:
                        continue
                    out.append(('model', tuple(a[n] for n in c06.FEATURES), cat))
        # a smaller slice under the other catalogs in quick
        if self.tier == 'quick':
            for a in qgen.assignments(c06.FEATURES, 1):
                if c06.build(a) is not None:
                    for cat in ('dicts', 'default_int1', 'class_type_none', 'class_type_sql'):
                        out.append(('model', tuple(a[n] for n in c06.FEATURES), cat))
        for label, sql in EXTRA:
            for cat in CATALOGS:
                out.append(('extra', label, cat))
        for label, sql in EXTRA_DEFAULT_NS:
            out.append(('extra', label, 'default_int1'))
        # the extra shapes again after planners over catalogs in which the same names are projects were used in the process
        for label, sql in EXTRA:
            out.append(('extra', label, 'names+history'))
        for label, sql in NEGATIVE:
            out.append(('negative', label, None))
        # the integration under other names: all extra shapes and the model with <= 1 non-default feature (thorough 2)
        for name in INT_NAMES:
            for label, sql in EXTRA:
                out.append(('extra', label, 'names@' + name))
            for a in qgen.assignments(c06.FEATURES, 2 if self.tier == 'thorough' else 1):
                if c06.build(a) is not None:
                    out.append(('model', tuple(a[n] for n in c06.FEATURES), 'names@' + name))
        return out

    def ensure(self, iname='int1'):
        if self.cons is None:
            self.cons = [sqlref.make_db(db, attach=ATTACH) for db in self.dbs]
            self.cons_named = {}
        if iname != 'int1' and iname not in self.cons_named:
            self.cons_named[iname] = [sqlref.make_db(db, attach={iname: ATTACH['int1']}) for db in self.dbs]

    def db_iter_named(self, iname):
        if iname == 'int1':
            yield from self.db_iter()
            return
        idx = self.active if self.active is not None else range(len(self.dbs))
        for i in idx:
            yield self.cons_named[iname][i], self.dbs[i]

    def evaluate(self, sql, full, spec, lim, off, cat, res=None):
        """-> list of (kind, detail, message)"""
        iname = 'int1'
        catalog = None
        history = cat.endswith('+history')
        if history:
            cat = cat[:-len('+history')]
        if '@' in cat:
            cat0, iname = cat.split('@')
            sql, full, catalog = rename(sql, iname), rename(full, iname), rename(copy.deepcopy(CATALOGS[cat0]), iname)
        else:
            catalog = copy.deepcopy(CATALOGS[cat])
        out = parsing.outcome(sql, 'mindsdb')
        if out.kind != 'ok':
            if res:
                res.count('not_parsed')
            return []
        orig = parsing.outcome(sql, 'mindsdb').value
        if history:
            from vf.props.c10 import role_swap_prelude
            role_swap_prelude()
        try:
            plan = plan_query(out.value, **catalog)
        except (PlanningException, NotImplementedError) as e:
            return [('not-planned', '', f'{sql!r} [{cat}]: {type(e).__name__}: {str(e)[:120]}')]
        except Exception as e:
            if res:
                res.count('internal_error_(C09)')
            return []
        steps = plan.steps
        if not (len(steps) == 1 and isinstance(steps[0], S.FetchDataframeStep) and str(steps[0].integration).lower() == iname.lower()):
            return [('not-a-single-fetch', '', f'{sql!r} [{cat}]: plan is {steps}')]
        if res:
            res.count('single_fetch_plans')
        fails = []
        fq = steps[0].query
        exp = reflect.fingerprint(drop_natural_aliases(strip_qualifier(orig, iname)))
        got = reflect.fingerprint(drop_natural_aliases(fq))
        if exp != got:
            from vf.props.c18 import fp_diff
            fails.append(('fetch-query-differs-structurally', fp_diff(exp, got),
                          f'{sql!r} [{cat}]: fetch query {str(fq)!r} is not the original minus the qualifier (first difference at {fp_diff(exp, got)})'))
        self.ensure(iname)
        bad = None
        for con, db in self.db_iter_named(iname):
            ref_full = sqlref.run(con, full)
            ref = sqlref.run(con, sql)
            if ref[0] != 'rows' or ref_full[0] != 'rows':
                if res:
                    res.count('original_not_executable_in_reference')
                return fails
            it = planx.Interp(con)
            try:
                fr = it.run_plan(steps)
                got = it.rows(fr)
                names = [c.name for c in fr.cols]
                err = None
            except planx.PlanExecError as e:
                err = e
            finally:
                it.cleanup()
            if res:
                res.count('executions')
            if err is not None:
                bad = ('fetch-not-executable', '', f'{sql!r} [{cat}]: {err}')
                break
            ok, why = sqlref.legal_answer(ref_full[2], got, spec, lim, off)
            if not ok:
                bad = ('rows-differ', '', f'{sql!r} [{cat}]: fetch {str(fq)!r}: {why}; database {db}; reference -> {ref[2][:5]}, fetch -> {got[:5]}')
                break
            want_names = ref[1]
            if len(want_names) == len(names):
                for wn, gn in zip(want_names, names):
                    if re.fullmatch(r'\w+', wn) and wn != gn:
                        bad = ('column-name-differs', '', f'{sql!r} [{cat}]: output column {wn!r} is named {gn!r} by the fetch {str(fq)!r}')
                        break
            if bad:
                break
        if bad:
            fails.append(bad)
        return fails

    def run(self, case):
        res = Result()
        kind, payload, cat = case
        if kind == 'negative':
            return self.run_negative(res, payload)
        self.choose_dbs(sum(1 for v in payload if v) if kind == 'model' else 0)
        if kind == 'extra':
            sql = dict(EXTRA + EXTRA_DEFAULT_NS)[payload]
            res.key((sql, cat))
            fails = self.evaluate(sql, sql, [], None, None, cat, res)
            if fails and '@' in cat:
                # a failure that the plain name int1 shows as well is reported there
                base = {k for k, _, _ in self.evaluate(sql, sql, [], None, None, cat.split('@')[0])}
                fails = [f for f in fails if f[0] not in base]
            for k, detail, msg in fails:
                res.violation(f'{k}|{payload}' + (f'|{detail}' if detail else '') + ('|integration-name=' + cat.split('@')[1] if '@' in cat else ''), msg)
            return res
        assign = dict(zip(c06.FEATURES, payload))
        q = c06.build(assign)
        res.key((qualify(q['sql']), cat))
        fails = self.evaluate(qualify(q['sql']), qualify(q['full_sql']), q['spec'], q['limit'], q['offset'], cat, res)
        if fails and '@' in cat:
            base = {k for k, _, _ in self.evaluate(qualify(q['sql']), qualify(q['full_sql']), q['spec'], q['limit'], q['offset'], cat.split('@')[0])}
            fails = [f for f in fails if f[0] not in base]
        for k, detail, msg in fails:
            cur = dict(assign)
            for name in c06.FEATURES:
                if cur[name] == 0:
                    continue
                trial = dict(cur)
                trial[name] = 0
                q2 = c06.build(trial)
                if q2 is None:
                    continue
                if any(k2 == k for k2, _, _ in self.evaluate(qualify(q2['sql']), qualify(q2['full_sql']), q2['spec'], q2['limit'], q2['offset'], cat)):
                    cur = trial
            res.violation(f'{k}|{c06.label(cur, True)}' + (f'|{detail}' if detail and c06.label(cur, True) == "default" else '') + ('|integration-name=' + cat.split('@')[1] if '@' in cat else ''), msg + f'\n    minimal failing features: {c06.label(cur)}')
        return res

    def run_negative(self, res, label):
        sql = dict(NEGATIVE)[label]
        res.key(sql)
        out = parsing.outcome(sql, 'mindsdb')
        if out.kind != 'ok':
            res.count('not_parsed')
            return res
        try:
            plan = plan_query(out.value, **copy.deepcopy(NEG_CATALOG))
        except (PlanningException, NotImplementedError):
            res.count('negative_declared_unsupported')
            return res
        except Exception:
            res.count('internal_error_(C09)')
            return res
        res.count('negative_plans')
        steps = plan.steps
        # The property fixes what happens INSIDE the single-integration class only; what the planner does outside it is
        # recorded, not judged (an earlier version of this check raised an alarm here: that demanded more than the statement).
        if len(steps) == 1 and isinstance(steps[0], S.FetchDataframeStep) and steps[0].raw_query is None:
            res.count('negative_space_planned_as_single_fetch')
        return res

    def coverage(self, agg):
        return {'exhaustive': True, 'databases': len(self.dbs), 'databases_used_for_cases_with_3_deviations': len(self.narrow) if self.narrow is not None else len(self.dbs), 'extra_shapes': [e[0] for e in EXTRA], 'negative_shapes': [n[0] for n in NEGATIVE],
                'rule': 'C06 SELECT feature model restricted to integration int1 (<= d non-default features + full products) x catalogs, 22 alias/qualifier/star '
                        'shapes x 3 catalogs, column names that need quoting x 8 positions, the integration under 10 other names (names containing files / views / mindsdb / information_schema, capitals), 14 negative shapes; every fetch executed on every database; distinct_nontrivial = distinct (SQL, catalog)'}

    def describe_case(self, case):
        kind, payload, cat = case
        if kind == 'model':
            q = c06.build(dict(zip(c06.FEATURES, payload)))
            sql = qualify(q['sql'])
            return {'kind': kind, 'sql': rename(sql, cat.split('@')[1]) if cat and '@' in cat else sql, 'catalog': cat}
        sql = dict(EXTRA + EXTRA_DEFAULT_NS + NEGATIVE)[payload]
        return {'kind': kind, 'sql': rename(sql, cat.split('@')[1]) if cat and '@' in cat else sql, 'catalog': cat}

"""C02 - parse_sql is total: a tree, ParsingException or LexError; never an internal error, None or a hang.

Bounded exhaustive exploration of the input space through the parser automaton model (GSX):
valid sentences (edge cover, production-pair cover), every one-token deviation at every abstract
state (all reachable error cells of the action table), truncations, all short character strings,
all token pairs, lexeme respellings, and a nesting/size ladder; all replayed through parse_sql.
"""
import itertools

from vf import gsx, lexemes, parsing
from vf.runner import Check, Result, exc_sig

# pumping family: opener + unit * N (+ closer).  Finds super-linear behaviour of the lexer patterns and of the
def unicode_class_chars():
    """one code point per Unicode general category (the first of the BMP, and the first astral one where the category has
    any), code points without a character name, and characters that str methods classify unlike ASCII (digits that are not
    decimal, white space that is not ASCII, case-folding letters, look-alikes of SQL punctuation)"""
    import sys
    import unicodedata
    first = {}
    for cp in list(range(0x80, 0x3000)) + list(range(0xD7F0, 0x10000)) + list(range(0x10000, 0x10400)) + list(range(0x1D400, 0x1D500)) + list(range(0xE0000, 0xE0080)) + [0xF0000, 0x10FFFF]:
        cat = unicodedata.category(chr(cp))
        first.setdefault((cat, cp > 0xFFFF), chr(cp))
    out = list(first.values())
    out += ['\x85', '\ue000', '\uffff', '\u0378', '\ud800', '\udfff', '\ufeff', '\u200b', '\u2028', '\u2029', '\xa0', '\uff07', '\uff1b', '\u0661', '\xb2', '\u2167', '\u0301',
            '\u0130', '\u0131', '\u017f', '\u212a', '\x7f', '\x1b', '\x0b', '\x0c', '\r', '\x1c', '\x1f']
    seen, uniq = set(), []
    for c in out:
        if c not in seen:
            seen.add(c)
            uniq.append(c)
    return uniq


UNICODE_CONTEXTS = ['{c}', 'select {c}', 'select a{c}', 'select {c}a', "select '{c}'", 'select `{c}`', 'select "{c}"', 'select 1{c}', 'select a {c} b', 'select a from t {c}',
                    '{c} select 1', 'select 1 -- {c}', 'select 1 /* {c} */', 'select @{c}', 'select a{c}b from t where {c}', 'select 1;{c}', "select 'a' {c}{c}",
                    'create model m from db (select {c}) predict y', 'select a\n{c}\nfrom t', 'select a.{c}']


# error reporter: one case per (opener, unit of length <= 2 over PUMP_CHARS, N, closed or not)
PUMP_OPENERS = ['', "'", '"', '`', '@', '@@', "@'", '@`', '@"', '/*', '--', '#', '1', '1.', 'a', 'a.', '(', "x'", '$']
PUMP_CHARS = list("a1'\"`\\ \n.@-/*_%;")
PUMP_CLOSER = {"'": "'", '"': '"', '`': '`', "@'": "'", '@`': '`', '@"': '"', '/*': '*/', '(': ')', "x'": "'"}
PUMP_N = (16, 64)


def pump_texts(thorough=False):
    units = [c for c in PUMP_CHARS] + [a + b for a in PUMP_CHARS for b in PUMP_CHARS]
    ns = PUMP_N + ((256,) if thorough else ())
    for op in PUMP_OPENERS:
        for u in units:
            for n in ns:
                yield 'select ' + op + u * n
                if op in PUMP_CLOSER:
                    yield 'select ' + op + u * n + PUMP_CLOSER[op]


CHARS = list("a1'\"`\\@#^&|!~?:;.,(){}[]+-*/%<>= \n\t") + ['\x00', 'é', '漢', '\U0001F600', '_', '$']


class CHECK(Check):
    pid = 'C02'
    level = 'model_checking'
    assumptions = ['per-case wall-clock guard of 20 s stands for "terminates"',
                   'size ladder stops at nesting depth 100 / 500 operands ("reasonably sized input")']

    def setup(self, tier, seed):
        self.tier, self.seed = tier, seed
        self.models = {d: gsx.Model(d) for d in gsx.DIALECTS}
        self.fams = {d: gsx.Families(m, 1) for d, m in self.models.items()}
        self.fams2 = {d: gsx.Families(m, 2) for d, m in self.models.items()} if tier == 'thorough' else {}

    def cases(self):
        out = []
        thorough = self.tier == 'thorough'
        for d, m in self.models.items():
            f = self.fams[d]
            pairs = f.s0_pairs()
            for s in f.s0_edges():
                out.append((d, 's0e', s))
            for s in pairs:
                out.append((d, 's0p', s))
            seen = set(pairs)
            for table in (0, 1) + ((2,) if thorough else ()):
                for s in f.s0_pairs(table=table) + f.s0_triples(table=table) + (f.s0_sibling_pairs(table=table) if table == 0 or thorough else []):
                    if s not in seen:
                        seen.add(s)
                        out.append((d, 's0t', s))
            for kind, s in f.s1():
                out.append((d, kind, s))
            # lexeme deviations on production-pair sentences
            for s in pairs:
                if any(t not in m.lexeme for t in s):
                    continue
                for i, sp, text in lexemes.deviations(m, s, per_class_first_only=not thorough):
                    out.append((d, 'text', text))
            for text in f.kw_family(['abc'] + lexemes.MAGIC_IDS):
                out.append((d, 'text', text))
            # token sequences of length <= 2
            for t in m.terminals:
                out.append((d, 'seq', (t,)))
            for a, b in itertools.product(m.terminals, m.terminals):
                out.append((d, 'seq', (a, b)))
            # character strings
            maxlen = 3
            chars = CHARS if thorough else CHARS[:30] + ['é']
            for n in range(0, maxlen + 1):
                for tup in itertools.product(chars, repeat=n):
                    out.append((d, 'text', ''.join(tup)))
            if thorough:
                for tup in itertools.product(CHARS, repeat=2):
                    out.append((d, 'text', 'select ' + ''.join(tup)))
                    out.append((d, 'text', "select '" + ''.join(tup)))
            for text in pump_texts(thorough):
                out.append((d, 'pump', text))
            # one code point per Unicode general category / unnamed / oddly classified, in every lexical context
            for c in unicode_class_chars():
                for ctx in UNICODE_CONTEXTS:
                    out.append((d, 'text', ctx.format(c=c)))
            # keywords spelt with a non-ASCII letter that the case-insensitive lexer folds onto an ASCII one: in the shortest
            # accepted sentence that contains the keyword
            first = {}
            for sent in sorted(pairs, key=len):
                if all(t in m.lexeme for t in sent) and m.simulate(sent)[0]:
                    for t in set(sent):
                        first.setdefault(t, sent)
            for t, sent in first.items():
                sp = m.lexeme[t]
                for alt in lexemes.fold_variants(sp):
                    i = sent.index(t)
                    toks = [m.lexeme[x] for x in sent]
                    toks[i] = alt
                    out.append((d, 'text', ' '.join(toks)))
            # size ladder
            for n in (10, 50, 100):
                out.append((d, 'text', 'select ' + '(' * n + '1' + ')' * n))
                out.append((d, 'text', 'select ' + 'case when a then ' * n + '1' + ' end' * n))
                out.append((d, 'text', 'select * from ' + '(select * from ' * n + 't' + ')' * n))
                out.append((d, 'text', 'select ' + '-' * n + '1'))
                out.append((d, 'text', 'select ' + 'not ' * n + 'a'))
                out.append((d, 'text', 'select ' + '(' * n + '1'))
                out.append((d, 'text', 'select f(' * n + '1' + ')' * n))
            for n in (50, 200, 500):
                out.append((d, 'text', 'select ' + ' + '.join(['a'] * n)))
                out.append((d, 'text', 'select ' + ' and '.join(['a'] * n)))
                out.append((d, 'text', 'select ' + ', '.join(['a'] * n) + ' from t'))
                out.append((d, 'text', 'select a from t where ' + ' or '.join(['a = 1'] * n)))
                out.append((d, 'text', 'select * from t ' + ' '.join(['join t on a = b'] * n)))
                out.append((d, 'text', ' union '.join(['select 1'] * n)))
                out.append((d, 'text', 'insert into t values ' + ', '.join(['(1, 2)'] * n)))
                out.append((d, 'text', 'select a.' + '.'.join(['b'] * n)))
            # length ladder for single lexemes (conversion limits, pattern costs): integers, decimals, names, literals, comments
            for n in (10, 100, 1000, 4300, 4301, 5000, 20000):
                out.append((d, 'text', 'select ' + '1' * n))
                out.append((d, 'text', 'select ' + '1' * n + '.5'))
                out.append((d, 'text', 'select 0.' + '1' * n))
                out.append((d, 'text', 'select a from t limit ' + '1' * n))
                out.append((d, 'text', 'select ' + 'a' * n))
                out.append((d, 'text', 'select `' + 'a' * n + '`'))
                out.append((d, 'text', "select '" + 'a' * n + "'"))
                out.append((d, 'text', 'select "' + 'a' * n + '"'))
                out.append((d, 'text', 'select 1 /* ' + 'a' * n + ' */'))
                out.append((d, 'text', 'select -' + '1' * n))
                out.append((d, 'text', 'select @' + 'a' * n))
                out.append((d, 'text', 'insert into t values (' + '1' * n + ')'))
            if thorough:
                f2 = self.fams2[d]
                for s in f2.s0_edges():
                    out.append((d, 's0e2', s))
                for kind, s in f2.s1():
                    out.append((d, kind + '2', s))
                from vf.props.c05 import column_class_reps
                reps = column_class_reps(m)
                for a, (pre, stk) in f.ex['states'].items():
                    c = f.comp[a] or ()
                    for t1 in reps:
                        for t2 in reps:
                            out.append((d, 'ins2', pre + (t1, t2) + c))
                for tup in itertools.product(reps, repeat=3):
                    out.append((d, 'seq', tup))
        return out

    def run(self, case):
        res = Result()
        d, kind, payload = case
        m = self.models[d]
        if kind in ('text', 'pump'):
            text = payload
        else:
            if any(t not in m.lexeme for t in payload):
                res.count('skipped_no_lexeme')
                return res
            text = m.text_of(payload)
        out = parsing.outcome(text, d)
        res.count('outcome_' + out.kind)
        if out.kind == 'ok':
            res.key((d, 'ok', text))
        elif out.kind in ('perr', 'lexerr'):
            msg = str(out.exc)
            res.key((d, out.kind, msg.split('\n')[0][:40], msg.split('\n')[-1][:60]))
            if not isinstance(msg, str):
                res.violation(f'{d}|non-string-message', repr(msg))
        elif out.kind == 'crash':
            res.violation(f'{d}|{exc_sig(out.exc)}', f'parse_sql({text[:300]!r}, {d!r}) raised {type(out.exc).__name__}: {str(out.exc)[:200]}')
        else:
            res.violation(f'{d}|returned-non-tree|{type(out.value).__name__}', f'parse_sql({text[:300]!r}, {d!r}) returned {out.value!r}')
        return res

    def timeout_signature(self, case):
        if case[1] == 'pump':
            body = case[2][len('select '):]
            op = max((o for o in PUMP_OPENERS if body.startswith(o)), key=len)
            unit = ''.join(sorted(set(body[len(op):len(op) + 8])))
            return f'{case[0]}|timeout|pump|{op}|{unit!r}'
        return f'{case[0]}|timeout|{case[1]}'

    def coverage(self, agg):
        st = sum(len(f.ex['states']) for f in self.fams.values()) + sum(len(f.ex['states']) for f in self.fams2.values())
        tr = sum(f.ex['edges'] for f in self.fams.values()) + sum(f.ex['edges'] for f in self.fams2.values())
        return {'exhaustive': True, 'states': st, 'transitions': tr, 'traces_validated_against_impl': agg['n'],
                'rule': 'S0 edge+pair+triple (P,i,C,j,D) cover, S1 (insert/replace every terminal, delete, truncate at every abstract state), lexeme respellings, '
                        'all token pairs, all strings of length<=3 over the character alphabet, one code point per Unicode general category (+ unnamed, surrogate, oddly classified ones) x 20 lexical contexts, a length ladder (10 ... 20000 characters) for integers / decimals / names / literals / comments, size ladder, pumping family (19 openers x units of length<=2 over 16 characters x N in 16, 64, open and closed); distinct_nontrivial = '
                        'distinct (dialect, accepted text) or (dialect, error header, last message line)',
                'char_alphabet': CHARS if self.tier == 'thorough' else CHARS[:30] + ['é']}

    def describe_case(self, case):
        d, kind, payload = case
        if kind in ('text', 'pump'):
            return {'dialect': d, 'kind': kind, 'text': payload if len(payload) < 300 else payload[:300] + '...'}
        return {'dialect': d, 'kind': kind, 'text': self.models[d].text_of(payload)}

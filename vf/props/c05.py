"""C05 - a statement is accepted only if its whole token stream is one grammar sentence.

Model checking of the parser automaton: BFS over between-token configurations of the live LALR
tables (abstract state = top-k stack suffix), every terminal tried in every state; every derived
sentence (valid, one-token deviations at every state, truncations, statement concatenations) is
replayed through parse_sql.  Oracle for every accepted text: the token stream produced by a fresh
lexer is accepted by (1) the PDA over the live tables without any error recovery and (2) an Earley
recogniser over the live productions.
"""
import itertools

from vf import gsx, parsing
from vf.runner import Check, Result


class CHECK(Check):
    pid = 'C05'
    level = 'model_checking'
    assumptions = [
        'the live lexer defines the token stream the property speaks about',
        'the grammar is Parser._grammar.Productions of the working tree (read at run time)',
        'Earley membership ignores precedence, which only removes sentences (sound upper bound)',
    ]

    def setup(self, tier, seed):
        self.tier, self.seed = tier, seed
        self.models = {d: gsx.Model(d) for d in gsx.DIALECTS}
        self.earley = {d: gsx.Earley(m) for d, m in self.models.items()}
        self.k = 1
        self.fams = {d: gsx.Families(m, self.k) for d, m in self.models.items()}
        self.fams2 = {}
        if tier == 'thorough':
            self.fams2 = {d: gsx.Families(m, 2) for d, m in self.models.items()}

    def cases(self):
        out = []
        self.structural = []
        for d, m in self.models.items():
            f = self.fams[d]
            for s in f.s0_edges():
                out.append((d, 's0e', s))
            for s in f.s0_pairs():
                out.append((d, 's0p', s))
            for kind, s in f.s1():
                out.append((d, kind, s))
            # statement concatenations
            tops = []
            for p in m.prods_of[m.start]:
                y = m.min_yield_seq(p.prod)
                if m.simulate(y)[0]:
                    tops.append(y)
            garbage = [('ID',), ('ID', 'ID'), ('RPAREN',), ('COMMA',), ('INTEGER',), ('ID', 'SELECT')]
            for a, b in itertools.product(tops, tops):
                out.append((d, 'cat', a + b))
                out.append((d, 'text', m.text_of(a) + ' ; ' + m.text_of(b)))
            for a in tops:
                for gb in garbage:
                    out.append((d, 'cat', gb + a))
                    out.append((d, 'cat', a + gb))
                    out.append((d, 'text', m.text_of(gb) + ' ; ' + m.text_of(a)))
                    out.append((d, 'text', m.text_of(a) + ' ; ' + m.text_of(gb)))
                for tail in (';', ' ;', ';;', ' ; ; ', '\n;\n', ' ;\t'):
                    out.append((d, 'text', m.text_of(a) + tail))
                out.append((d, 'text', '; ' + m.text_of(a)))
            if self.tier == 'thorough':
                f2 = self.fams2[d]
                for s in f2.s0_edges():
                    out.append((d, 's0e2', s))
                for kind, s in f2.s1():
                    out.append((d, kind + '2', s))
                # two deviations on k=1 witnesses over column-class representatives
                reps = column_class_reps(m)
                for a, (pre, stk) in f.ex['states'].items():
                    c = f.comp[a] or ()
                    for t1 in reps:
                        for t2 in reps:
                            out.append((d, 'ins2', pre + (t1, t2) + c))
                            if c:
                                out.append((d, 'insrep', pre + (t1,) + c[:1] + (t2,) + c[2:]))
            # structural: no production mentions `error`
            for p in m.prods:
                if 'error' in p.prod:
                    self.structural.append((d, str(p)))
        if self.structural:
            out.append(('*', 'structural', tuple(self.structural)))
        return out

    def run(self, case):
        res = Result()
        d, kind, payload = case
        if kind == 'structural':
            for dd, p in payload:
                res.violation(f'{dd}|error-production|{p}', 'grammar contains an error-recovery production')
            return res
        m = self.models[d]
        if kind == 'text':
            text = payload
        else:
            if any(t not in m.lexeme for t in payload):
                res.count('skipped_no_lexeme')
                return res
            text = m.text_of(payload)
        try:
            actual = tuple(m.lex_types(parsing.strip_tail(text)))
        except parsing.LexError:
            actual = None
        out = parsing.outcome(text, d)
        res.count('outcome_' + out.kind)
        if actual is None:
            if out.kind == 'ok':
                res.violation(f'{d}|accepted-unlexable|{kind}', f'text {text!r} accepted but lexer rejects it')
            return res
        cells = set()
        pda_ok, err = m.simulate(actual, cells)
        for c in cells:
            res.covered('cells_' + d, c)
        if out.kind == 'ok':
            res.key((d, actual))
            if not pda_ok:
                bad = actual[err] if err < len(actual) else '$end'
                res.violation(f'{d}|accepted-non-sentence|{kind}',
                              f'text {text!r} tokens {" ".join(actual)}: the LALR automaton (no recovery) stops at token #{err} ({bad}) but parse_sql returned a tree: {str(out.value)[:200]!r}')
            elif not self.earley[d].accepts(actual):
                res.violation(f'{d}|accepted-not-in-CFG', f'text {text!r} tokens {" ".join(actual)} accepted, Earley over live productions rejects')
            else:
                res.count('accepted_and_member')
        elif out.kind in ('perr',):
            if pda_ok and out.is_syntax_error:
                res.violation(f'conformance|{d}|pda-accepts-impl-syntax-error',
                              f'text {text!r}: automaton model accepts, implementation reports {str(out.exc)[:200]!r}')
            elif pda_ok:
                res.count('semantic_veto')
            else:
                res.count('rejected_and_nonmember')
        return res

    def coverage(self, agg):
        cov = {'exhaustive': True, 'k': self.k}
        st = tr = 0
        per = {}
        for d, f in self.fams.items():
            st += len(f.ex['states'])
            tr += f.ex['edges']
            per[d] = {'abstract_states_k1': len(f.ex['states']), 'transitions_tried': f.ex['edges'],
                      'valid_transitions': f.ex['valid_edges'], 'cells_consulted_in_model': len(f.ex['cells']),
                      'cells_hit_through_parse_sql_inputs': len(agg['cover'].get('cells_' + d, ())),
                      'dead_states': len(f.dead), 'lr_states': len(self.models[d].action),
                      'productions': len(self.models[d].prods),
                      'terminals_without_lexeme': sorted(self.models[d].unverified_lexemes)}
        for d, f in self.fams2.items():
            st += len(f.ex['states'])
            tr += f.ex['edges']
            per[d]['abstract_states_k2'] = len(f.ex['states'])
        cov.update({'states': st, 'transitions': tr, 'traces_validated_against_impl': agg['n'],
                    'per_dialect': per,
                    'rule': 'cases = S0 edge cover + production-pair cover + S1 (insert/replace with every terminal, delete, truncate at every '
                            'abstract state) + statement concatenations; distinct_nontrivial = distinct accepted token streams'})
        return cov

    def describe_case(self, case):
        d, kind, payload = case
        if kind == 'text' or kind == 'structural':
            return {'dialect': d, 'kind': kind, 'text': payload}
        return {'dialect': d, 'kind': kind, 'text': self.models[d].text_of(payload)}


def column_class_reps(m):
    """one representative terminal per class of terminals with identical action columns"""
    cols = {}
    for t in m.terminals:
        col = tuple(sorted((s, row[t]) for s, row in m.action.items() if t in row))
        cols.setdefault(col, t)
    return sorted(cols.values())

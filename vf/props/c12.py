"""C12 - prepared statements bind placeholders in textual order, like inline literals.

Statement templates put literal slots in every expression position the property lists; every subset
of <= 3 slots is turned into `?` placeholders.  Oracle: prepare reports n parameters; executing with
distinct marker values v1..vn plans exactly as the statement with vi written in place of the i-th
placeholder (by text position) on a fresh planner; the filled tree has no unbound placeholder and
every marker exactly once; a wrong number of values raises PlanningException.  Plus an explicit-state
BFS over prepare / feed / info / execute call histories on one planner object.
"""
import collections
import copy
import itertools
import re

from mindsdb_sql.exceptions import PlanningException
from mindsdb_sql.parser import ast as A
from mindsdb_sql.planner import plan_query, utils as putils
from mindsdb_sql.planner.query_planner import QueryPlanner

from vf import parsing, reflect
from vf.runner import Check, Result, exc_sig

CATALOG = dict(integrations=['int1', 'int2'], predictor_metadata=[dict(name='pred', integration_name='mindsdb')], default_namespace='mindsdb')

# template, {slot: position label}; slots are written {0} {1} ... in textual order
TEMPLATES = [
    ('select', 'SELECT {0}, a FROM int1.t1 WHERE b = {1} AND c > {2}', ['select-list', 'where', 'where']),
    ('select', 'SELECT a + {0} AS k FROM int1.t1 WHERE a IN ({1}, {2}) AND b BETWEEN {3} AND {4}', ['select-list', 'in-list', 'in-list', 'between', 'between']),
    ('select', 'SELECT CASE {0} WHEN {1} THEN {2} ELSE {3} END AS k FROM int1.t1 WHERE a = {4}', ['case-operand', 'case-when', 'case-then', 'case-else', 'where']),
    ('select', 'SELECT CASE WHEN a = {0} THEN {1} ELSE {2} END AS k FROM int1.t1 WHERE b = {3}', ['case-when', 'case-then', 'case-else', 'where']),
    ('select', 'SELECT coalesce(a, {0}), substring(b FROM {1}) FROM int1.t1 WHERE c = {2}', ['function-arg', 'function-from-arg', 'where']),
    ('select', 'SELECT substring(b, {0}, {1}) AS s FROM int1.t1 WHERE c = {2}', ['function-arg', 'function-arg', 'where']),
    ('select', 'SELECT a FROM int1.t1 WHERE b = {0} GROUP BY a HAVING count(*) > {1} ORDER BY a LIMIT 5', ['where', 'having']),
    ('select', 'SELECT a, count(*) FROM int1.t1 WHERE b = {0} GROUP BY a, c + {1} HAVING sum(x) > {2}', ['where', 'group-by', 'having']),
    ('select', 'SELECT a FROM int1.t1 WHERE b = {0} ORDER BY a + {1}', ['where', 'order-by']),
    ('select', 'SELECT a FROM int1.t1 WHERE b = {0} OR NOT c = {1} OR d IS NULL AND e <> {2}', ['where', 'where', 'where']),
    ('select', 'SELECT CAST({0} AS int), a FROM int1.t1 WHERE b = ({1} + {2}) * c', ['cast-arg', 'where', 'where']),
    ('select', 'SELECT a FROM int1.t1 WHERE b IN (SELECT x FROM int1.t3 WHERE y = {0}) AND c = {1}', ['where-subquery', 'where']),
    ('select', 'SELECT (SELECT max(x) FROM int1.t3 WHERE y = {0}) AS m, {1} FROM int1.t1 WHERE c = {2}', ['target-subquery', 'select-list', 'where']),
    ('select', 'SELECT a FROM (SELECT a, b FROM int1.t1 WHERE c = {0}) AS s WHERE s.b = {1}', ['from-subquery', 'where']),
    ('join', 'SELECT * FROM int1.t1 JOIN int2.t2 ON t1.id = t2.id AND t2.b = {0} WHERE t1.a = {1} AND t2.y = {2}', ['join-on', 'where', 'where']),
    ('join', 'SELECT t1.a, {0} FROM int1.t1 JOIN int2.t2 ON t1.id = t2.id WHERE t1.a = {1} LIMIT 3', ['select-list', 'where']),
    ('join', 'SELECT * FROM (SELECT * FROM int1.t1 WHERE a = {0}) AS p JOIN (SELECT * FROM int2.t2 WHERE b = {1}) AS s ON p.id = s.id WHERE p.x = {2}', ['join-left-subquery', 'join-right-subquery', 'where']),
    ('join', 'SELECT * FROM int1.t1 JOIN int2.t2 ON t1.id = t2.id JOIN int1.t3 ON t3.id = t2.id AND t3.c = {0} WHERE t1.a = {1} AND t3.c > {2}', ['join-on', 'where', 'where']),
    ('join', 'SELECT * FROM int1.t1 LEFT JOIN int2.t2 ON t1.id = t2.id WHERE t1.a BETWEEN {0} AND {1} AND t2.b IN ({2}, {3})', ['between', 'between', 'in-list', 'in-list']),
    ('model-join', 'SELECT * FROM int1.t1 JOIN mindsdb.pred WHERE t1.a = {0} AND pred.p1 = {1} AND t1.b > {2}', ['where', 'where-model-arg', 'where']),
    ('model-join', 'SELECT t1.a, pred.p FROM int1.t1 JOIN mindsdb.pred WHERE t1.a = {0} LIMIT 2', ['where']),
    ('model-select', 'SELECT * FROM mindsdb.pred WHERE a = {0} AND b = {1}', ['where', 'where']),
    ('union', 'SELECT a FROM int1.t1 WHERE b = {0} UNION SELECT b FROM int2.t2 WHERE y = {1}', ['union-left', 'union-right']),
    ('union', 'SELECT a, {0} FROM int1.t1 UNION ALL SELECT b, {1} FROM int2.t2 WHERE y = {2}', ['union-left', 'union-right', 'union-right']),
    ('cte', 'WITH q AS (SELECT a FROM int1.t1 WHERE b = {0}) SELECT * FROM q JOIN int2.t2 ON q.a = t2.b WHERE t2.y = {1}', ['cte-body', 'where']),
    ('insert', 'INSERT INTO int1.t1 (a, b, c) VALUES ({0}, {1}, {2})', ['insert-values', 'insert-values', 'insert-values']),
    ('insert', 'INSERT INTO int1.t1 (a, b) VALUES ({0}, {1}), ({2}, {3})', ['insert-values', 'insert-values', 'insert-values-row2', 'insert-values-row2']),
    ('insert', 'INSERT INTO int1.t1 (a, b) SELECT x, {0} FROM int2.t2 WHERE y = {1}', ['insert-select-list', 'insert-select-where']),
    ('update', 'UPDATE int1.t1 SET a = {0}, b = {1} WHERE c = {2}', ['update-set', 'update-set', 'update-where']),
    ('update', 'UPDATE int1.t1 SET a = a + {0} WHERE c = {1} AND d IN ({2}, {3})', ['update-set', 'update-where', 'update-where', 'update-where']),
    ('delete', 'DELETE FROM int1.t1 WHERE a = {0} AND b > {1}', ['delete-where', 'delete-where']),
    ('delete', 'DELETE FROM int1.t1 WHERE a IN (SELECT x FROM int2.t2 WHERE y = {0}) OR b = {1}', ['delete-subquery', 'delete-where']),
    ('window', 'SELECT sum(x + {0}) OVER (PARTITION BY a + {1} ORDER BY b + {2}) AS s FROM int1.t1 WHERE c = {3}', ['window-arg', 'window-partition', 'window-order', 'where']),
    ('tuple', 'SELECT a FROM int1.t1 WHERE (a, b) = ({0}, {1}) AND c = {2}', ['tuple', 'tuple', 'where']),
    # select list together with positions inside FROM (derived table, JOIN ... ON), CTE bodies and the clauses after WHERE
    ('select', 'SELECT a, {0} AS k FROM (SELECT a, b FROM int1.t1 WHERE c = {1}) AS s WHERE s.b = {2}', ['select-list', 'from-subquery', 'where']),
    ('join', 'SELECT t1.a, {0} AS k FROM int1.t1 JOIN int2.t2 ON t1.id = t2.id AND t2.b = {1} WHERE t1.a = {2}', ['select-list', 'join-on', 'where']),
    ('join', 'SELECT {0} AS k FROM int1.t1 JOIN (SELECT * FROM int2.t2 WHERE b = {1}) AS s ON s.id = t1.id AND s.y = {2}', ['select-list', 'join-right-subquery', 'join-on']),
    ('cte', 'WITH q AS (SELECT a FROM int1.t1 WHERE b = {0}) SELECT q.a, {1} AS k FROM q JOIN int2.t2 ON q.a = t2.b AND t2.y = {2}', ['cte-body', 'select-list', 'join-on']),
    ('select', 'SELECT DISTINCT a, {0} AS k FROM int1.t1 WHERE b = {1} GROUP BY a HAVING max(c) > {2} ORDER BY a', ['select-list', 'where', 'having']),
    ('select', 'SELECT a FROM int1.t1 WHERE EXISTS (SELECT 1 FROM int1.t3 WHERE t3.c = {0}) AND NOT EXISTS (SELECT 1 FROM int1.t3 WHERE t3.c = {1}) AND b = {2}', ['exists', 'not-exists', 'where']),
    ('union', 'SELECT a FROM int1.t1 WHERE b = {0} UNION SELECT b FROM int2.t2 WHERE y = {1} UNION SELECT c FROM int1.t3 WHERE c = {2}', ['union-left', 'union-middle', 'union-right']),
    ('insert', 'INSERT INTO int1.t1 (a, b) VALUES ({0} + 1, {1}), (3, {2})', ['insert-values-expr', 'insert-values', 'insert-values-row2']),
]


def _clause_templates():
    """SELECT statements with every subset of the optional clauses (so that HAVING without GROUP BY, ORDER BY without WHERE ...
    all occur), one literal slot per clause, over a single table, a cross-integration join and a derived table"""
    out = []
    froms = [('select', 'int1.t1', 't1'), ('join', 'int1.t1 JOIN int2.t2 ON t1.id = t2.id', 't1'), ('select', '(SELECT * FROM int1.t1) AS t1', 't1')]
    for kind, frm, al in froms:
        for mask in range(32):
            distinct, where, group, having, order = [(mask >> b) & 1 for b in range(5)]
            labels = ['select-list']
            sql = 'SELECT ' + ('DISTINCT ' if distinct else '') + f'{al}.a + {{0}} AS k FROM ' + frm
            k = 1
            if where:
                sql += f' WHERE {al}.b = {{{k}}}'
                labels.append('where'); k += 1
            if group:
                sql += f' GROUP BY {al}.a + {{{k}}}'
                labels.append('group-by'); k += 1
            if having:
                sql += f' HAVING count(*) > {{{k}}}'
                labels.append('having' if group else 'having-without-group-by'); k += 1
            if order:
                sql += f' ORDER BY {al}.a + {{{k}}}'
                labels.append('order-by'); k += 1
            out.append((kind, sql, labels))
    return out


TEMPLATES += _clause_templates()


# (python value handed to execute_steps, the literal that denotes it in the statement text)
VALUE_KINDS = [(True, 'TRUE'), (False, 'FALSE'), (None, 'NULL'), (1.5, '1.5'), ('x', "'x'"), ("it's", "'it''s'"), (-3, '-3'), (10 ** 20, '100000000000000000000'),
               (0, '0'), ('', "''"), (1, '1'), ('1', "'1'")]


def instantiate(tpl, nslots, chosen):
    """-> (text with ?, text with inline markers, markers in text order)"""
    vals_q, vals_i = [], []
    markers = []
    k = 0
    for s in range(nslots):
        if s in chosen:
            k += 1
            m = 100 + k
            markers.append(m)
            vals_q.append('?')
            vals_i.append(str(m))
        else:
            vals_q.append(str(900 + s))
            vals_i.append(str(900 + s))
    return tpl.format(*vals_q), tpl.format(*vals_i), markers


def feed(step):
    """answers of the environment to prepare steps: column information for known tables, None otherwise"""
    return None


def drive(text, params, catalog=CATALOG, wrong=None):
    """prepare + info + execute on one planner; returns dict(outcome..)"""
    out = parsing.outcome(text, 'mindsdb')
    if out.kind != 'ok':
        return {'stage': 'parse', 'exc': out.exc}
    p = QueryPlanner(**copy.deepcopy(catalog))
    try:
        for st in p.prepare_steps(out.value):
            st.set_result(feed(st))
        info = p.get_statement_info()
    except (PlanningException, NotImplementedError) as e:
        return {'stage': 'prepare', 'exc': e}
    except Exception as e:
        return {'stage': 'prepare-internal', 'exc': e}
    res = {'stage': 'prepared', 'nparams': len(info['parameters']), 'planner': p}
    try:
        steps = []
        values = list(params)
        for st in p.execute_steps(values):
            st.set_result(None)
            steps.append(st)
        res['steps'] = steps
        res['stage'] = 'executed'
        res['values_after'] = values
    except (PlanningException, NotImplementedError) as e:
        res['exec_exc'] = e
    except Exception as e:
        res['exec_internal'] = e
    return res


def plan_fp(steps):
    return reflect.fingerprint(list(steps), ignore=('result_data',))


class CHECK(Check):
    pid = 'C12'
    level = 'model_checking'
    assumptions = ['prepare steps are answered with None (no column information), which the planner treats as "unknown"',
                   'only the transitions the property states are judged (prepare -> info, execute with n, n-1, n+1 values); others are explored and recorded']

    def setup(self, tier, seed):
        self.tier, self.seed = tier, seed

    def cases(self):
        out = []
        maxk = 3
        for ti, (kind, tpl, labels) in enumerate(TEMPLATES):
            n = len(labels)
            for k in range(0, min(maxk, n) + 1):
                for chosen in itertools.combinations(range(n), k):
                    out.append(('bind', ti, chosen))
            if self.tier == 'thorough' and n > 3:
                for chosen in itertools.combinations(range(n), n):
                    out.append(('bind', ti, chosen))
        # values of every kind the placeholders can carry (booleans, NULL, floats, strings with a quote, negative and large integers):
        # bound value vs. the same literal written inline, one slot at a time (and all slots at once)
        for ti, (kind, tpl, labels) in enumerate(TEMPLATES):
            for slot_i in range(len(labels)):
                out.append(('kinds', ti, (slot_i,)))
            out.append(('kinds', ti, tuple(range(len(labels)))))
        for ti in range(len(TEMPLATES)):
            out.append(('history', ti, ()))
        # two statements on one planner, the step generator of the first consumed only after the second was prepared and executed
        picks = [i for i, t in enumerate(TEMPLATES) if t[0] in ('select', 'join', 'update', 'delete', 'insert', 'union')][::3][:10]
        for i in picks:
            for j in picks:
                out.append(('deferred', i, j))
        return out

    def judge(self, ti, chosen):
        """-> list of (kind, message)"""
        kind, tpl, labels = TEMPLATES[ti]
        qtext, itext, markers = instantiate(tpl, len(labels), set(chosen))
        n = len(markers)
        fails = []
        # reference: inline literals on a fresh planner
        ref = parsing.outcome(itext, 'mindsdb')
        if ref.kind != 'ok':
            return [('template-not-parsed', f'{itext!r}')]
        try:
            ref_plan = plan_query(ref.value, **copy.deepcopy(CATALOG))
            ref_fp = plan_fp(ref_plan.steps)
            ref_exc = None
        except (PlanningException, NotImplementedError) as e:
            ref_fp, ref_exc = None, e
        except Exception as e:
            return []      # internal planner errors are C09's
        # direct observation of get_query_params / fill_query_params
        qt = parsing.outcome(qtext, 'mindsdb')
        if qt.kind != 'ok':
            return [('placeholder-text-not-parsed', f'{qtext!r}: {str(qt.exc)[:100]}')]
        found = putils.get_query_params(copy.deepcopy(qt.value))
        if len(found) != n:
            fails.append(('placeholders-not-all-found', f'{qtext!r}: {len(found)} placeholders found, {n} written'))
        if len(found) == n:
            filled = putils.fill_query_params(copy.deepcopy(qt.value), list(markers))
            leftover = [x for x, _ in reflect.walk(filled, want=lambda o: isinstance(o, A.Parameter))]
            if leftover:
                fails.append(('placeholder-left-unbound', f'{qtext!r}: {len(leftover)} placeholder(s) remain after filling'))
            inline_tree = parsing.outcome(itext, 'mindsdb').value
            if not leftover and reflect.fingerprint(filled) != reflect.fingerprint(inline_tree):
                fails.append(('bound-out-of-textual-order', f'{qtext!r} with {markers} gives {str(filled)!r}, textual order gives {str(inline_tree)!r}'))
        # through the prepared-statement API
        r = drive(qtext, markers)
        if r['stage'] in ('prepare', 'prepare-internal', 'parse'):
            if ref_exc is None and r['stage'] == 'prepare':
                self._prep_unsupported = getattr(self, '_prep_unsupported', 0) + 1
            if r['stage'] == 'prepare-internal':
                fails.append(('prepare-internal-error|' + exc_sig(r['exc']), f'{qtext!r}: {r["exc"]!r}'))
            return fails
        if r['nparams'] != n:
            fails.append(('parameter-count', f'{qtext!r}: statement info reports {r["nparams"]} parameters, {n} written'))
        if 'steps' in r and r.get('values_after') != list(markers):
            fails.append(('values-list-of-the-caller-changed', f'{qtext!r}: the list passed to execute_steps was {markers} and is {r.get("values_after")} afterwards'))
        if 'steps' in r:
            if ref_fp is not None and plan_fp(r['steps']) != ref_fp and not any(f[0] in ('bound-out-of-textual-order', 'placeholder-left-unbound', 'placeholders-not-all-found') for f in fails):
                fails.append(('executed-plan-differs', f'{qtext!r} executed with {markers} plans {r["steps"]}\n    inline literals plan {ref_plan.steps}'))
        elif 'exec_exc' in r:
            if ref_exc is None and r['nparams'] == n:
                fails.append(('execute-raises', f'{qtext!r} with {markers}: {type(r["exec_exc"]).__name__}: {str(r["exec_exc"])[:100]}'))
        elif 'exec_internal' in r:
            fails.append(('execute-internal-error|' + exc_sig(r['exec_internal']), f'{qtext!r}: {r["exec_internal"]!r}'))
        # wrong counts
        if r['nparams'] == n:
            for wrong in ([m for m in markers][:-1] if n else None, markers + [999]):
                if wrong is None:
                    continue
                rw = drive(qtext, wrong)
                if rw['stage'] == 'executed' or 'exec_internal' in rw:
                    what = 'plans' if rw['stage'] == 'executed' else f'raises {type(rw["exec_internal"]).__name__}'
                    fails.append((f'wrong-value-count-accepted|{"fewer" if len(wrong) < n else "more"}', f'{qtext!r} executed with {len(wrong)} values (needs {n}) {what}'))
        return fails

    def run_deferred(self, res, i, j):
        k1, t1, l1 = TEMPLATES[i]
        k2, t2, l2 = TEMPLATES[j]
        q1, i1, m1 = instantiate(t1, len(l1), set(range(min(2, len(l1)))))
        q2, i2, m2 = instantiate(t2, len(l2), set(range(min(2, len(l2)))))
        m2 = [x + 500 for x in m2] if all(isinstance(x, int) for x in m2) else m2
        p1, p2 = parsing.outcome(q1, 'mindsdb'), parsing.outcome(q2, 'mindsdb')
        ref = parsing.outcome(i1, 'mindsdb')
        if p1.kind != 'ok' or p2.kind != 'ok' or ref.kind != 'ok':
            return res
        try:
            ref_fp = plan_fp(plan_query(ref.value, **copy.deepcopy(CATALOG)).steps)
        except Exception:
            return res
        planner = QueryPlanner(**copy.deepcopy(CATALOG))
        try:
            for st in planner.prepare_steps(p1.value):
                st.set_result(feed(st))
            g1 = planner.execute_steps(list(m1))            # not consumed yet
            for st in planner.prepare_steps(p2.value):
                st.set_result(feed(st))
            for st in planner.execute_steps(list(m2)):
                st.set_result(None)
            steps1 = []
            for st in g1:
                st.set_result(None)
                steps1.append(st)
        except (PlanningException, NotImplementedError):
            res.count('deferred_declared_unsupported')
            return res
        except Exception as e:
            res.count('deferred_internal_error')
            return res
        res.count('deferred_scenarios')
        res.key(('deferred', i, j))
        if plan_fp(steps1) != ref_fp:
            res.violation(f'deferred-execution-plans-another-statement|{k1}|{k2}',
                          f'prepare {q1!r}; g = execute_steps({m1}); prepare and execute {q2!r}; consuming g yields {steps1}\n    instead of the plan of {i1!r}')
        return res

    def run_kinds(self, res, ti, slots):
        kind, tpl, labels = TEMPLATES[ti]
        n = len(labels)
        res.key(('kinds', ti, slots))
        for r in range(len(VALUE_KINDS)):
            # slot j of the chosen ones gets kind (r + j) mod K, so that every kind meets every slot and kinds are mixed in one statement
            vals = [VALUE_KINDS[(r + j) % len(VALUE_KINDS)] for j in range(len(slots))]
            qparts, iparts = [], []
            it = iter(vals)
            bound = []
            for s_ in range(n):
                if s_ in slots:
                    v, lit = next(it)
                    bound.append(v)
                    qparts.append('?')
                    iparts.append(lit)
                else:
                    qparts.append(str(900 + s_))
                    iparts.append(str(900 + s_))
            qtext, itext = tpl.format(*qparts), tpl.format(*iparts)
            qt, rt = parsing.outcome(qtext, 'mindsdb'), parsing.outcome(itext, 'mindsdb')
            if qt.kind != 'ok' or rt.kind != 'ok':
                res.count('kinds_text_not_parsed')
                continue
            if len(putils.get_query_params(copy.deepcopy(qt.value))) != len(bound):
                continue        # placeholders not found: reported by the binding cases
            try:
                filled = putils.fill_query_params(copy.deepcopy(qt.value), list(bound))
            except Exception as e:
                res.violation(f'bind-value-kind-raises|{exc_sig(e)}', f'{qtext!r} with {bound!r}: {e!r}')
                continue
            res.count('value_kind_bindings')
            if reflect.fingerprint(filled) != reflect.fingerprint(rt.value):
                bad = next((type(v).__name__ for (v, lit), _ in zip(vals, slots)), '?')
                # which kind: bind each alone
                res.violation(f'bound-value-differs-from-inline-literal|{"+".join(sorted({type(v).__name__ for v, _ in vals}))}',
                              f'{qtext!r} with {bound!r} gives {str(filled)!r}; the inline statement is {str(rt.value)!r}')
                continue
            rq = drive(qtext, bound)
            if rq.get('stage') == 'executed':
                try:
                    ref_fp = plan_fp(plan_query(rt.value, **copy.deepcopy(CATALOG)).steps)
                except Exception:
                    continue
                if plan_fp(rq['steps']) != ref_fp:
                    res.violation(f'executed-plan-differs|value-kinds|{kind}', f'{qtext!r} executed with {bound!r} plans {rq["steps"]}, the inline statement {itext!r} plans differently')
        return res

    def run(self, case):
        if case[0] == 'kinds':
            return self.run_kinds(Result(), case[1], case[2])
        if case[0] == 'deferred':
            return self.run_deferred(Result(), case[1], case[2])
        res = Result()
        mode, ti, chosen = case
        kind, tpl, labels = TEMPLATES[ti]
        if mode == 'history':
            return self.history(res, ti)
        res.key((ti, chosen))
        fails = self.judge(ti, chosen)
        res.count('bindings')
        for k, msg in fails:
            # minimise the placeholder subset
            best = tuple(chosen)
            for size in range(1, len(chosen)):
                hit = None
                for sub in itertools.combinations(chosen, size):
                    if any(k2 == k for k2, _ in self.judge(ti, sub)):
                        hit = sub
                        break
                if hit:
                    best = hit
                    break
            pos = '+'.join(labels[s] for s in best) or 'none'
            res.violation(f'{k}|{kind}|{pos}', msg)
        return res

    # ------------------------------------------------------------------ histories
    def history(self, res, ti):
        kind, tpl, labels = TEMPLATES[ti]
        # histories use two placeholder slots that the planner finds (an unfound placeholder is reported by the binding cases;
        # here it would only repeat that finding as a parameter-count mismatch)
        chosen = None
        for cand in itertools.combinations(range(len(labels)), min(2, len(labels))):
            qtext, itext, markers = instantiate(tpl, len(labels), set(cand))
            tree = parsing.outcome(qtext, 'mindsdb')
            if tree.kind == 'ok' and len(putils.get_query_params(tree.value)) == len(markers):
                chosen = set(cand)
                break
        if chosen is None:
            res.count('history_skipped_no_bindable_slots')
            return res
        n = len(markers)
        ref_fp = None
        try:
            ref_fp = plan_fp(plan_query(parsing.outcome(itext, 'mindsdb').value, **copy.deepcopy(CATALOG)).steps)
        except Exception:
            pass
        ops = ['prepare', 'info', 'exec_n', 'exec_less', 'exec_more', 'exec_none']
        depth = 4 if self.tier == 'thorough' else 3
        seen = set()
        transitions = 0
        for seq in itertools.product(ops, repeat=depth):
            p = QueryPlanner(**copy.deepcopy(CATALOG))
            state = ('fresh',)
            armed = False      # prepared successfully, and since then only asked for info / refused wrong-count executions
            for op in seq:
                outcome = self.apply(p, op, qtext, markers)
                nxt = (op, outcome[0])
                transitions += 1
                if armed and op == 'exec_n' and ref_fp is not None and n > 0:
                    # a refused execution must leave the prepared statement usable: the right number of values plans the statement
                    if outcome[0] != 'ok' or outcome[2] != ref_fp:
                        res.violation(f'history|execute-after-refused-execute|{kind}|{outcome[0]}',
                                      f'{qtext!r}: history {seq}: executing with {markers} gives {outcome[:2]}' + ('' if outcome[0] != 'ok' else ', a plan that differs from the plan of the inline statement'))
                if armed and op in ('exec_less', 'exec_more') and outcome[0] != 'PlanningException':
                    res.violation(f'history|wrong-count-after-prepare|{kind}|{outcome[0]}', f'{qtext!r}: history {seq}: {op} gives {outcome[0]}')
                if op == 'prepare':
                    armed = outcome[0] == 'ok'
                elif op == 'info' or (op in ('exec_less', 'exec_more') and outcome[0] == 'PlanningException'):
                    pass
                else:
                    armed = False
                # judged transitions
                prepared = getattr(p, 'statement', None) is not None and getattr(p.statement, 'params', None) is not None
                if op == 'info' and state[0] == 'prepare' and state[1] == 'ok':
                    if outcome[0] != 'ok' or outcome[1] != n:
                        res.violation(f'history|info-after-prepare|{kind}', f'{qtext!r}: history {seq}: info gives {outcome}')
                if op in ('exec_less', 'exec_more') and state[0] == 'prepare' and state[1] == 'ok':
                    if outcome[0] != 'PlanningException':
                        res.violation(f'history|wrong-count-after-prepare|{kind}|{outcome[0]}', f'{qtext!r}: history {seq}: {op} gives {outcome[0]}')
                if op == 'exec_n' and state[0] == 'prepare' and state[1] == 'ok':
                    if outcome[0] not in ('ok', 'PlanningException', 'NotImplementedError'):
                        res.violation(f'history|execute-after-prepare|{kind}|{outcome[0]}', f'{qtext!r}: history {seq}: {outcome}')
                seen.add((state, nxt))
                res.covered('history_states', nxt)
                res.covered('history_transitions', (state, nxt))
                state = nxt
        res.count('history_transitions_executed', transitions)
        res.key(('history', ti, len(seen)))
        return res

    def apply(self, p, op, qtext, markers):
        try:
            if op == 'prepare':
                tree = parsing.outcome(qtext, 'mindsdb').value
                for st in p.prepare_steps(tree):
                    st.set_result(None)
                return ('ok',)
            if op == 'info':
                return ('ok', len(p.get_statement_info()['parameters']))
            vals = {'exec_n': list(markers), 'exec_less': list(markers)[:-1], 'exec_more': list(markers) + [999], 'exec_none': None}[op]
            steps = list(p.execute_steps(vals))
            return ('ok', len(steps), plan_fp(steps))
        except (PlanningException,) as e:
            return ('PlanningException',)
        except NotImplementedError:
            return ('NotImplementedError',)
        except Exception as e:
            return (type(e).__name__,)

    def coverage(self, agg):
        st = len(agg['cover'].get('history_states', ()))
        tr = len(agg['cover'].get('history_transitions', ()))
        return {'exhaustive': True, 'states': max(st, 1), 'transitions': max(tr, 1), 'traces_validated_against_impl': agg['counters'].get('history_transitions_executed', 0),
                'templates': len(TEMPLATES),
                'rule': 'every subset of <= 3 literal slots of 34 statement templates as placeholders (binding oracle, direct and through prepare/execute) + '
                        'every slot bound to every kind of value (booleans, NULL, float, strings, negative / large integers) and compared with the inline literal; all call histories of depth 3 (thorough 4) over 6 operations per template; states/transitions = distinct abstract (operation, outcome) '
                        'states and transitions of the history graph; distinct_nontrivial = distinct (template, placeholder subset)'}

    def describe_case(self, case):
        if case[0] == 'deferred':
            return {'mode': 'deferred', 'first': TEMPLATES[case[1]][1], 'second': TEMPLATES[case[2]][1]}
        mode, ti, chosen = case
        kind, tpl, labels = TEMPLATES[ti]
        if mode == 'kinds':
            return {'mode': mode, 'template': tpl, 'slots': list(chosen)}
        q, i, m = instantiate(tpl, len(labels), set(chosen) if mode == 'bind' else set(range(min(2, len(labels)))))
        return {'mode': mode, 'text': q, 'values': m}

"""SQLREF - sqlite as the reference SQL engine: database enumerator, execution helpers and the
answer-set oracle (which accepts every answer a correct engine may return, nothing else)."""
import collections
import itertools
import sqlite3

SCHEMA = {
    't1': ['id', 'a', 'x'],
    't2': ['id', 'b', 'y'],
    't3': ['id', 'c'],
}

# candidate rows: NULLs, duplicate join keys, unmatched keys on either side, order ties
CAND = {
    't1': [(1, 1, 10), (2, 1, 20), (2, 2, 10), (3, None, 30), (None, 2, None), (4, 3, 20), (1, 2, 20), (5, 1, None)],
    't2': [(1, 1, 10), (2, 1, 20), (2, 2, 10), (6, None, 30), (None, 1, None), (3, 3, 20), (1, 2, 20), (7, 1, 10)],
    't3': [(1, 1), (2, 2), (None, 1), (8, None)],
}


def databases(tier, tables=('t1', 't2', 't3'), schema=None, cand=None):
    """list of dict table -> list of rows. quick: every table content with <= 1 row per table on the first 4 candidates
    (full product) plus a covering set of larger databases; thorough: <= 2 rows per table over all candidates for the
    first two tables (full product), the third table empty or with two rows."""
    cand = cand or CAND
    out = []

    def subsets(rows, r):
        res = [()]
        for k in range(1, r + 1):
            res.extend(itertools.combinations(rows, k))
        return res

    if tier == 'quick':
        per = {t: subsets(cand[t][:4], 1) for t in tables}
    else:
        per = {t: subsets(cand[t], 2) if t in tables[:2] else [(), tuple(cand[t][:2])] for t in tables}
    for combo in itertools.product(*[per[t] for t in tables]):
        out.append({t: list(rows) for t, rows in zip(tables, combo)})
    # covering set: larger databases with all phenomena together
    big = [
        {t: list(cand[t]) for t in tables},
        {t: list(cand[t][:5]) for t in tables},
        {t: list(cand[t][2:7]) if len(cand[t]) > 4 else list(cand[t]) for t in tables},
        {t: list(reversed(cand[t])) for t in tables},
        {t: list(cand[t][:3]) + list(cand[t][:2]) for t in tables},   # duplicates of whole rows
        {t: (list(cand[t][:6]) if i == 0 else []) for i, t in enumerate(tables)},
        {t: (list(cand[t][:6]) if i == 1 else []) for i, t in enumerate(tables)},
        {t: list(cand[t][1:4]) for t in tables},
        {t: list(cand[t][3:]) for t in tables},
        {t: list(cand[t][::2]) for t in tables},
        # whole rows duplicated in one table only (multiplicities differ between the operands of a set operation / join)
        {t: (list(cand[t][:3]) + list(cand[t][:2]) if i == 0 else list(cand[t][:3])) for i, t in enumerate(tables)},
        {t: (list(cand[t][:3]) if i == 0 else list(cand[t][:3]) + list(cand[t][:3])) for i, t in enumerate(tables)},
    ]
    out.extend(big)
    return out


def make_db(content, schema=None, attach=None):
    """in-memory connection holding `content`; attach = {alias: [tables]} puts those tables into attached schemas"""
    schema = schema or SCHEMA
    con = sqlite3.connect(':memory:')
    where = {}
    if attach:
        for alias, tabs in attach.items():
            con.execute(f"ATTACH ':memory:' AS {alias}")
            for t in tabs:
                where[t] = alias
    for t, rows in content.items():
        cols = schema[t]
        q = f'{where[t]}.{t}' if t in where else t
        con.execute(f'CREATE TABLE {q} ({", ".join(cols)})')
        if rows:
            con.executemany(f'INSERT INTO {q} VALUES ({", ".join("?" * len(cols))})', rows)
    con.commit()
    return con


def run(con, sql):
    """('rows', names, rows) or ('error', message)"""
    try:
        cur = con.execute(sql)
        rows = cur.fetchall()
        names = [d[0] for d in cur.description] if cur.description else []
        return ('rows', names, rows)
    except sqlite3.Error as e:
        return ('error', str(e))
    except sqlite3.Warning as e:
        return ('error', 'warning: ' + str(e))


def dump(con, tables=None):
    """full contents + declared columns of all user tables (for DML/DDL comparison)"""
    out = {}
    names = [r[0] for r in con.execute("select name from sqlite_master where type='table' order by name")]
    for n in names:
        info = [(r[1], (r[2] or '').upper(), r[3], r[5]) for r in con.execute(f'PRAGMA table_info("{n}")')]
        # values with their storage class: 1 and 1.0 are different table contents
        rows = collections.Counter(tuple((type(v).__name__, v) for v in row) for row in con.execute(f'select * from "{n}"').fetchall())
        out[n] = (tuple(info), rows)
    return out


# ---------------------------------------------------------------------------------------- answer-set oracle
def sort_key(v, desc=False, nulls=None):
    """total order of sqlite values restricted to NULL / numbers / text; returns a tuple usable for comparison"""
    if v is None:
        rank = 0
    elif isinstance(v, (int, float)):
        rank = 1
    else:
        rank = 2
    return (rank, v if v is not None else 0)


def order_keys(rows, spec):
    """spec = list of (column index, desc: bool, nulls: 'first'|'last'|None). returns list of comparable keys"""
    out = []
    for r in rows:
        k = []
        for idx, desc, nulls in spec:
            v = r[idx]
            # sqlite: NULL is smallest; ASC -> first, DESC -> last; explicit NULLS FIRST/LAST override
            if nulls is None:
                nulls_first = not desc
            else:
                nulls_first = nulls == 'first'
            if v is None:
                part = (0 if nulls_first else 2, 0)
            else:
                rank = 0 if isinstance(v, (int, float)) else 1
                val = v
                if desc:
                    val = _neg(v)
                part = (1, rank if not desc else -rank, val)
            k.append(part)
        out.append(tuple(k))
    return out


class _Rev:
    __slots__ = ('v',)

    def __init__(self, v):
        self.v = v

    def __lt__(self, o):
        return o.v < self.v

    def __eq__(self, o):
        return self.v == o.v

    def __hash__(self):
        return hash(self.v)


def _neg(v):
    if isinstance(v, (int, float)):
        return -v
    return _Rev(v)


def legal_answer(full, got, spec=None, limit=None, offset=None):
    """Is `got` (list of rows) an answer a correct engine may return for a query whose unordered, unlimited
    result is the multiset `full`, ordered by `spec` (or unordered), cut by limit/offset?
    returns (ok, reason)"""
    full = list(full)
    got = list(got)
    n = len(full)
    off = offset or 0
    lim = limit if limit is not None else n
    want_n = max(0, min(lim, n - off))
    if len(got) != want_n:
        return False, f'row count {len(got)} != {want_n}'
    cf = collections.Counter(full)
    cg = collections.Counter(got)
    for r, c in cg.items():
        if cf.get(r, 0) < c:
            return False, f'row {r!r} occurs {c}x in the answer but {cf.get(r, 0)}x in the full result'
    if not spec:
        return True, ''
    kf = sorted(order_keys(full, spec))
    kg = order_keys(got, spec)
    if kg != kf[off:off + lim]:
        if sorted(kg) == kg:
            return False, 'wrong rows selected by ORDER BY/LIMIT/OFFSET (sort keys of the answer differ from the keys at those positions)'
        return False, 'answer is not sorted as ORDER BY demands'
    # rows chosen from every key group must come from that group
    groups = collections.defaultdict(collections.Counter)
    for r, k in zip(full, order_keys(full, spec)):
        groups[k][r] += 1
    used = collections.defaultdict(collections.Counter)
    for r, k in zip(got, kg):
        used[k][r] += 1
        if used[k][r] > groups[k][r]:
            return False, 'row taken from the wrong sort-key group'
    return True, ''

"""Common runner: sharded exhaustive enumeration, violation bookkeeping, known findings,
replay files and evidence files.

A property check is a subclass of `Check`:

    setup(tier, seed)   parent process, before workers are forked (build models once)
    cases()             parent: the complete finite case list (cheap, JSON-able items)
    run(case)           worker: run one case against the real code -> Result
    coverage(agg)       parent: extra coverage keys for the evidence file

Exhaustiveness: every case returned by cases() is executed; `exhaustive` is set in the
evidence only if no case hit the per-case time guard and no cap was applied by the check.
VERIF_SEED only rotates the processing order and the samples shown.
"""
import collections
import hashlib
import json
import multiprocessing as mp
import os
import signal
import sys
import time
import traceback

ROOT = os.path.dirname(os.path.dirname(os.path.abspath(__file__)))
REPO = os.environ.get('VERIF_REPO', '/repo')
KNOWN_FILE = os.path.join(ROOT, 'known_findings.json')
OUT = os.environ.get('VERIF_OUT') or ROOT
NPROC = int(os.environ.get('VERIF_NPROC', '16'))
CASE_TIMEOUT = float(os.environ.get('VERIF_CASE_TIMEOUT', '20'))


class CaseTimeout(BaseException):
    pass


def _alarm(signum, frame):
    raise CaseTimeout()


class Result:
    """Outcome of one case.
    violations: list of (signature, message) ; signature identifies the *kind* of failure
    keys:       hashable items counted as distinct non-trivial cases
    counters:   name -> int, summed over all cases
    cover:      name -> set of hashables, unioned over all cases (coverage of alphabets)
    """
    __slots__ = ('violations', 'keys', 'counters', 'cover')

    def __init__(self):
        self.violations = []
        self.keys = []
        self.counters = collections.Counter()
        self.cover = {}

    def violation(self, sig, msg=''):
        self.violations.append((sig, msg))

    def key(self, k):
        self.keys.append(k)

    def count(self, name, n=1):
        self.counters[name] += n

    def covered(self, name, item):
        self.cover.setdefault(name, set()).add(item)


class Check:
    pid = None
    level = 'exploration'
    assumptions = []

    def setup(self, tier, seed):
        self.tier, self.seed = tier, seed

    def cases(self):
        raise NotImplementedError

    def run(self, case):
        raise NotImplementedError

    def coverage(self, agg):
        return {}

    def describe_case(self, case):
        return case

    def replay_setup(self, case):
        """minimal setup for --replay (default: full setup in quick tier)"""
        self.setup('quick', 0)


def h64(obj):
    if not isinstance(obj, (str, bytes)):
        obj = repr(obj)
    if isinstance(obj, str):
        obj = obj.encode('utf8', 'surrogatepass')
    return int.from_bytes(hashlib.blake2b(obj, digest_size=8).digest(), 'big')


def repo_frame(tb):
    """innermost frame of a traceback that lies inside the repository under test"""
    best = None
    for fs in traceback.extract_tb(tb):
        fn = fs.filename
        if fn.startswith(REPO + '/'):
            best = (os.path.relpath(fn, REPO), fs.name)
    return best


def exc_sig(exc):
    """exception type + innermost repository frame (+ the grammar action / public entry that led there)"""
    fr = repo_frame(exc.__traceback__)
    if fr is not None:
        outer = None
        for fs in traceback.extract_tb(exc.__traceback__):
            fn = fs.filename
            if fn.startswith(REPO + '/') and not fn.startswith(REPO + '/sly/'):
                rel = os.path.relpath(fn, REPO)
                if rel.endswith('parser.py') and (rel, fs.name) != fr:
                    outer = (rel, fs.name)
        s = f'{type(exc).__name__}@{fr[0]}:{fr[1]}'
        if outer:
            s += f'<{os.path.basename(outer[0])}:{outer[1]}'
        return s
    if fr is None:
        fs = traceback.extract_tb(exc.__traceback__)
        last = fs[-1] if fs else None
        where = f'{os.path.basename(last.filename)}:{last.name}' if last else '?'
        return f'{type(exc).__name__}@ext:{where}'
    return f'{type(exc).__name__}@{fr[0]}:{fr[1]}'


_CHECK = None
_CASES = None


def is_group(case):
    return isinstance(case, tuple) and len(case) > 0 and case[0] == '@group'


def _work(rng):
    """run the cases _CASES[lo:hi]; an item ('@group', ...) stands for the cases chk.expand(item) yields (generated in
    the worker, so that very large families never exist as one list)"""
    lo, hi = rng
    chk = _CHECK
    agg = {'viol': {}, 'keys': set(), 'counters': collections.Counter(), 'cover': {}, 'timeouts': 0, 'n': 0}
    signal.signal(signal.SIGALRM, _alarm)
    signal.signal(signal.SIGPROF, _alarm)

    def run_forked(case):
        """run one case in a child forked from this (clean) worker, so that nothing the case does to process-global state can
        reach another case; the Result comes back through a pipe"""
        import pickle
        r, w = os.pipe()
        pid = os.fork()
        if pid == 0:
            code = 0
            try:
                os.close(r)
                try:
                    out = chk.run(case)
                    payload = ('ok', out.violations, out.keys, dict(out.counters), out.cover)
                except BaseException as e:   # reported by the parent as a harness failure / timeout
                    payload = ('exc', type(e).__name__, ''.join(traceback.format_exception(e))[-1500:], isinstance(e, CaseTimeout))
                with os.fdopen(w, 'wb') as fh:
                    pickle.dump(payload, fh)
            except BaseException:
                code = 1
            finally:
                os._exit(code)
        os.close(w)
        with os.fdopen(r, 'rb') as fh:
            data = fh.read()
        os.waitpid(pid, 0)
        if not data:
            raise RuntimeError('forked case produced no result')
        payload = pickle.loads(data)
        if payload[0] == 'exc':
            if payload[3]:
                raise CaseTimeout()
            raise RuntimeError(f'{payload[1]} in forked case: {payload[2]}')
        res = Result()
        res.violations, res.keys = payload[1], payload[2]
        res.counters.update(payload[3])
        res.cover = payload[4]
        return res

    forked = bool(getattr(chk, 'fork_per_case', False))

    def one(case, order):
        res = None
        try:
            # the guard measures the CPU time of this worker (a non-terminating case burns CPU; an overloaded machine must not
            # turn a 5 ms case into a "timeout"); wall-clock time is a backstop only (10x; the limit itself for forked cases,
            # whose CPU time is spent in the child)
            limit = getattr(chk, 'case_timeout', CASE_TIMEOUT)
            if not forked:
                signal.setitimer(signal.ITIMER_PROF, limit)
            signal.setitimer(signal.ITIMER_REAL, limit if forked else 10 * limit)
            try:
                res = run_forked(case) if forked else chk.run(case)
            finally:
                signal.setitimer(signal.ITIMER_REAL, 0)
                signal.setitimer(signal.ITIMER_PROF, 0)
        except CaseTimeout:
            agg['timeouts'] += 1
            res = Result()
            res.violation(chk.timeout_signature(case) if hasattr(chk, 'timeout_signature') else 'timeout',
                          f'case did not finish within {getattr(chk, "case_timeout", CASE_TIMEOUT)}s of CPU time')
        except Exception as e:  # harness-level failure: never silent
            res = Result()
            res.violation('harness:' + exc_sig(e), ''.join(traceback.format_exception(e))[-1500:])
        agg['n'] += 1
        for sig, msg in res.violations:
            slot = agg['viol'].setdefault(sig, {'count': 0, 'examples': []})
            slot['count'] += 1
            if len(slot['examples']) < 3:
                slot['examples'].append((order, msg, case))
        for k in res.keys:
            agg['keys'].add(h64(k))
        agg['counters'].update(res.counters)
        for name, items in res.cover.items():
            agg['cover'].setdefault(name, set()).update(items)

    for i in range(lo, hi):
        case = _CASES[i]
        if is_group(case):
            for j, sub in enumerate(chk.expand(case)):
                one(sub, (i, j))
            agg['counters']['lazy_groups_expanded'] += 1
        else:
            one(case, (i, 0))
    return agg


def load_known(pid):
    if not os.path.exists(KNOWN_FILE):
        return {}
    data = json.load(open(KNOWN_FILE))
    out = {}
    for f in data.get('findings', []):
        if f.get('property') == pid:
            out[f['signature']] = f
    return out


def run_cases(chk, cases, seed):
    global _CHECK, _CASES
    _CHECK, _CASES = chk, cases
    n = len(cases)
    nproc = min(NPROC, max(1, n))
    chunk = max(1, min(400, n // (nproc * 8) + 1))
    ranges = []
    lo = 0
    for i, c in enumerate(cases):
        if is_group(c):
            if lo < i:
                ranges.append((lo, i))
            ranges.append((i, i + 1))
            lo = i + 1
        elif i + 1 - lo >= chunk:
            ranges.append((lo, i + 1))
            lo = i + 1
    if lo < n:
        ranges.append((lo, n))
    if ranges:
        r = seed % len(ranges)
        ranges = ranges[r:] + ranges[:r]
    total = {'viol': {}, 'keys': set(), 'counters': collections.Counter(), 'cover': {}, 'timeouts': 0, 'n': 0}

    def merge(a):
        total['n'] += a['n']
        total['timeouts'] += a['timeouts']
        total['keys'] |= a['keys']
        total['counters'].update(a['counters'])
        for name, items in a['cover'].items():
            total['cover'].setdefault(name, set()).update(items)
        for sig, slot in a['viol'].items():
            t = total['viol'].setdefault(sig, {'count': 0, 'examples': []})
            t['count'] += slot['count']
            t['examples'].extend(slot['examples'])
            t['examples'].sort(key=lambda e: e[0])
            del t['examples'][3:]

    if nproc == 1 or os.environ.get('VERIF_SERIAL'):
        for rg in ranges:
            merge(_work(rg))
    else:
        ctx = mp.get_context('fork')
        with ctx.Pool(nproc) as pool:
            for a in pool.imap_unordered(_work, ranges):
                merge(a)
    return total


def safe_describe(chk, case):
    """describe_case must never be the reason a violation goes unreported"""
    try:
        return jsonable(chk.describe_case(case))
    except Exception as e:
        return {'case': repr(case)[:500], 'describe_case_failed': repr(e)}


def jsonable(x):
    try:
        json.dumps(x)
        return x
    except Exception:
        return repr(x)


def main_check(chk, argv):
    import argparse
    ap = argparse.ArgumentParser()
    ap.add_argument('--tier', default=os.environ.get('VERIF_TIER', 'quick'), choices=['quick', 'thorough'])
    ap.add_argument('--replay')
    ap.add_argument('--list-sigs', action='store_true', help='print every signature with one example (maintenance)')
    args = ap.parse_args(argv)
    seed = int(os.environ.get('VERIF_SEED', '0') or 0)
    pid = chk.pid
    import mindsdb_sql
    import sly
    for m in (mindsdb_sql, sly):
        if not os.path.realpath(m.__file__).startswith(os.path.realpath(REPO) + '/'):
            print(f'{pid}: {m.__name__} was imported from {m.__file__}, not from the tree under test {REPO}; refusing to run')
            return 3

    if args.replay:
        rec = json.load(open(args.replay))
        chk.replay_setup(rec['case'])
        case = chk.decode_case(rec['case']) if hasattr(chk, 'decode_case') else rec['case']
        res = chk.run(case)
        want = rec.get('signature')
        hit = False
        for sig, msg in res.violations:
            print(f'replayed violation: {sig}\n    {msg}')
            if sig == want:
                hit = True
        if hit or (want is None and res.violations):
            print(f'VIOLATION property={pid} replay={args.replay}')
            return 1
        print('replay: recorded violation did not reproduce' if want else 'replay: no violation')
        return 0

    t0 = time.time()
    chk.setup(args.tier, seed)
    cases = chk.cases()
    if not isinstance(cases, list):
        cases = list(cases)
    t1 = time.time()
    total = run_cases(chk, cases, seed)
    t2 = time.time()
    known = load_known(pid)

    os.makedirs(os.path.join(OUT, 'replays', pid), exist_ok=True)
    unknown_sigs, known_hits = [], []
    for sig in sorted(total['viol']):
        slot = total['viol'][sig]
        if sig in known:
            known_hits.append(sig)
        else:
            unknown_sigs.append(sig)
    exit_code = 0
    for sig in known_hits:
        f = known[sig]
        print(f"KNOWN-FINDING: property={pid} {f.get('what', sig)} [signature={sig}; {total['viol'][sig]['count']} case(s)]")
    printed = 0
    for sig in unknown_sigs:
        slot = total['viol'][sig]
        _order, msg, case = slot['examples'][0]
        rec = {'property': pid, 'signature': sig, 'message': msg, 'count': slot['count'],
               'case': chk.encode_case(case) if hasattr(chk, 'encode_case') else jsonable(case),
               'described': safe_describe(chk, case)}
        path = os.path.join(OUT, 'replays', pid, '%016x.json' % h64(sig))
        with open(path, 'w') as fh:
            json.dump(rec, fh, indent=1, ensure_ascii=False, default=repr)
        exit_code = 1
        if printed < 200:
            print(f'VIOLATION property={pid} replay={path}')
            print(f'    signature={sig} cases={slot["count"]}')
            for line in str(msg).splitlines()[:12]:
                print('    ' + line)
            printed += 1
    if len(unknown_sigs) > printed:
        print(f'... {len(unknown_sigs) - printed} further violation signatures not printed (replay files written)')
    if args.list_sigs:
        for sig in sorted(total['viol']):
            slot = total['viol'][sig]
            _order, msg, case = slot['examples'][0]
            print('SIG', json.dumps({'signature': sig, 'count': slot['count'],
                                     'example': safe_describe(chk, case), 'msg': str(msg)[:600]},
                                    ensure_ascii=False, default=repr))
    stale = [s for s in known if s not in total['viol']]

    cov = {
        'evaluations': total['n'],
        'distinct_nontrivial': len(total['keys']),
        'case_timeouts': total['timeouts'],
        'counters': dict(sorted(total['counters'].items())),
        'cover_sizes': {k: len(v) for k, v in sorted(total['cover'].items())},
        'known_findings_reproduced': len(known_hits),
        'known_findings_listed_not_seen_this_run': sorted(stale),
        'unlisted_violation_signatures': len(unknown_sigs),
    }
    extra = chk.coverage(total) or {}
    cov.update(extra)
    if 'samples' not in cov:
        plain = [c for c in cases if not is_group(c)] or [next(iter(chk.expand(c))) for c in cases[:5]]
        step = max(1, len(plain) // 5)
        cov['samples'] = [safe_describe(chk, plain[(seed + i * step) % len(plain)]) for i in range(min(5, len(plain)))]
    if total['timeouts']:
        cov['exhaustive'] = False
    ev = {
        'property_id': pid, 'tier': args.tier, 'seed': seed, 'level': chk.level,
        'coverage': cov, 'assumptions': list(chk.assumptions),
        'wall_s': round(time.time() - t0, 2),
        'violations': sum(total['viol'][s]['count'] for s in unknown_sigs),
        'timing': {'setup_and_enumeration_s': round(t1 - t0, 2), 'execution_s': round(t2 - t1, 2)},
    }
    os.makedirs(os.path.join(OUT, 'evidence'), exist_ok=True)
    with open(os.path.join(OUT, 'evidence', pid + '.json'), 'w') as fh:
        json.dump(ev, fh, indent=1, ensure_ascii=False, default=repr)
    print(f'{pid} tier={args.tier} seed={seed}: cases={total["n"]} distinct={len(total["keys"])} '
          f'known={len(known_hits)} unlisted={len(unknown_sigs)} timeouts={total["timeouts"]} wall={ev["wall_s"]}s')
    return exit_code

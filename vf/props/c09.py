"""C09 - every emitted plan is a well-formed, forward-only dataflow program; planning fails only with
PlanningException / NotImplementedError.

Inputs: every query of the C08 model, every table-model join query of the predictor model (incl.
partition_size), time-series join queries, DML/DDL statements, and every accepted sentence of the
GSX families of the mindsdb grammar rooted in a plannable statement under several identifier naming
schemes; x catalog shapes.  Plans are scanned reflectively for every Result reference.
"""
import itertools

from mindsdb_sql.exceptions import PlanningException
from mindsdb_sql.parser import ast as A
from mindsdb_sql.planner import plan_query, steps as S
from mindsdb_sql.planner.query_plan import QueryPlan
from mindsdb_sql.planner.step_result import Result as StepResult

from vf import gsx, parsing, predq, qgen, reflect
from vf.props import c08
from vf.runner import Check, Result, exc_sig

PLANNABLE = (A.Select, A.Union, A.Intersect, A.Except, A.Insert, A.Update, A.Delete, A.CreateTable)
DATAFRAME_STEPS = (S.FetchDataframeStep, S.JoinStep, S.QueryStep, S.SubSelectStep, S.UnionStep, S.ProjectStep, S.LimitOffsetStep, S.ApplyPredictorStep,
                   S.ApplyPredictorRowStep, S.ApplyTimeseriesPredictorStep, S.MapReduceStep, S.MultipleSteps, S.GetPredictorColumns, S.GetTableColumns,
                   S.DataStep, S.FilterStep, S.GroupByStep, S.OrderByStep)

GSX_CATALOGS = {
    'default_int1': dict(integrations=['int1', 'int2'], default_namespace='int1'),
    'no_default': dict(integrations=['int1', 'int2']),
    'pred_default': dict(integrations=['int1'], predictor_metadata=[dict(name='pred', integration_name='mindsdb')], default_namespace='mindsdb'),
    'tspred_default': dict(integrations=['int1'], default_namespace='mindsdb',
                           predictor_metadata=[dict(name='pred', integration_name='mindsdb', timeseries=True, order_by_column='ts', group_by_columns=['g'], window=2)]),
    'api': dict(integrations=[{'name': 'int1', 'type': 'data', 'class_type': 'api'}], default_namespace='int1'),
}

DML = [
    'INSERT INTO int1.t1 (id, a) VALUES (1, 2)', 'INSERT INTO int1.t1 (id, a) SELECT t2.id, t2.b FROM int2.t2', 'INSERT INTO int1.t1 SELECT * FROM int2.t2 JOIN mindsdb.pred',
    'INSERT INTO int1.t1 (id) SELECT id FROM int1.t1 UNION SELECT id FROM int2.t2', 'UPDATE int1.t1 SET a = 1 WHERE id = 2',
    'UPDATE int1.t1 SET a = 1 FROM (SELECT * FROM int2.t2) AS s WHERE t1.id = s.id', 'UPDATE int1.t1 ON id FROM (SELECT * FROM int2.t2 JOIN mindsdb.pred)',
    'DELETE FROM int1.t1 WHERE a = 1', 'DELETE FROM int1.t1 WHERE id IN (SELECT id FROM int2.t2)', 'DELETE FROM int1.t1', 'DELETE FROM t1 WHERE a = 1',
    'CREATE TABLE int1.n (a int, b text)', 'CREATE TABLE int1.n (SELECT * FROM int2.t2)', 'CREATE OR REPLACE TABLE int1.n SELECT * FROM int2.t2 JOIN mindsdb.pred',
    'CREATE TABLE n (a int)', 'CREATE TABLE int1.n SELECT * FROM int1.t1 JOIN mindsdb.tp WHERE t1.ts > LATEST',
    'SELECT * FROM mindsdb.pred WHERE a = 1', 'SELECT * FROM mindsdb.pred WHERE a = 1 AND b = 2', 'SELECT * FROM mindsdb.pred', 'SELECT * FROM mindsdb.pred WHERE 1 = 0',
    'SELECT * FROM mindsdb.pred WHERE a > 1', 'SELECT p FROM mindsdb.pred WHERE a = 1 OR b = 2', 'SELECT * FROM mindsdb.pred WHERE a = (SELECT max(id) FROM int1.t1)',
    'SELECT * FROM mindsdb.pred.3 WHERE a = 1', 'SELECT * FROM pred WHERE a = 1', 'SELECT * FROM int1.t1 JOIN mindsdb.pred JOIN mindsdb.pred2',
    'SELECT * FROM (SELECT * FROM int1.t1) AS s JOIN mindsdb.pred', 'SELECT * FROM int1.t1 WHERE id IN (SELECT id FROM int2.t2 JOIN mindsdb.pred)',
    'SELECT * FROM int1 (select 1) JOIN mindsdb.pred', 'SELECT * FROM int1 (select 1)', 'SELECT * FROM files.f JOIN mindsdb.pred', 'SELECT * FROM views.v',
    'WITH q AS (SELECT * FROM int1.t1) SELECT * FROM q JOIN mindsdb.pred', 'SELECT mindsdb.fn(a) FROM int1.t1', 'SELECT * FROM int1.t1 WHERE llm(a) = 1',
    'SELECT sum(a) FROM int1.t1 WHERE mindsdb.fn(a) = 1 GROUP BY b ORDER BY b LIMIT 1',
]
DML_CATALOG = dict(integrations=['int1', 'int2', 'files', 'views'], default_namespace='mindsdb',
                   predictor_metadata=[dict(name='pred', integration_name='mindsdb'), dict(name='pred2', integration_name='mindsdb'),
                                       dict(name='tp', integration_name='mindsdb', timeseries=True, order_by_column='ts', group_by_columns=['g'], window=2)])


OTHER_DIALECT = ['SELECT * FROM int1.t1 OFFSET 5', 'SELECT a FROM int1.t1 WHERE a IN (SELECT b FROM int1.t2 OFFSET 2)', 'SELECT * FROM int1.t1 JOIN int2.t2 ON t1.id = t2.id OFFSET 1',
                 'SELECT * FROM int1.t1 ORDER BY a OFFSET 3', 'SELECT * FROM t1 OFFSET 1', 'SELECT a FROM int1.t1 GROUP BY a OFFSET 1']


def ts_queries():
    out = []
    for (cl, cond), (pl, part), side, lim, extra in itertools.product(predq.TS_CONDS, predq.TS_PART, ('right', 'left'), ('', ' LIMIT 1'),
                                                                        ('', ' ORDER BY t.ts', ' GROUP BY t.g', ' OFFSET 1', 'other_col', 'two_time')):
        conds = [c.format(v=2) for c in (cond, part) if c]
        if extra == 'other_col':
            conds.append('t.z = 1')
            tail = ''
        elif extra == 'two_time':
            conds.append('t.ts < 9')
            tail = ''
        else:
            tail = extra
        frm = 'int1.tt AS t JOIN mindsdb.tp' if side == 'right' else 'mindsdb.tp JOIN int1.tt AS t'
        sql = f'SELECT * FROM {frm}' + (' WHERE ' + ' AND '.join(conds) if conds else '') + tail + lim
        for window, ng in ((1, 0), (2, 1), (2, 2), (2, None)):
            out.append((sql, (window, ng)))
    return out


def scan_results(obj, path=()):
    """every StepResult reachable from a step (fields, embedded ASTs, sub-steps) with its path; sub-steps are reported separately"""
    for o, p in reflect.walk(obj, want=lambda x: isinstance(x, StepResult)):
        yield o, p


class CHECK(Check):
    pid = 'C09'
    level = 'exploration'
    assumptions = ['sub-steps of MapReduceStep / MultipleSteps may refer to earlier top-level steps and to earlier sub-steps of the same container',
                   'the answer-producing last step: InsertToTable / UpdateToTable / DeleteStep / SaveToTable|CreateTableStep for DML/DDL, a dataframe step otherwise']

    def setup(self, tier, seed):
        self.tier, self.seed = tier, seed
        self.m = gsx.Model('mindsdb')
        self.fam = gsx.Families(self.m, 1)
        # two-step process histories over the planner corpus of vf.histories (the second plan must still be well formed)
        from vf import histories
        self.hcorpus = histories.corpus(tier)
        if tier == 'quick':
            refs = histories.references(self.hcorpus)
            self.hcorpus = [self.hcorpus[i] for i in histories.select_quick(self.hcorpus, refs)]

    def cases(self):
        out = []
        d = 3 if self.tier == 'thorough' else 2
        for a in qgen.assignments(c08.FEATURES, d, full_products=[('join', 'where'), ('join', 'on'), ('join', 'order', 'limit'), ('shape', 'catalog')]):
            q = c08.build(a)
            if q is not None:
                out.append(('c08', q['sql'], q['catalog']))
        for a in qgen.assignments(predq.FEATURES, d, full_products=[('shape', 'where'), ('shape', 'using'), ('shape', 'catalog'), ('shape', 'alias', 'using')]):
            q = predq.build(a)
            if q is not None:
                out.append(('pred', q['sql'], q['catalog']))
        for sql, wc in ts_queries():
            out.append(('ts', sql, wc))
        for sql in DML:
            out.append(('dml', sql, None))
        m = self.m
        sents = set(self.fam.s0_pairs()) | set(self.fam.s0_edges()) | set(self.fam.s0_sibling_pairs())
        for s in sorted(sents):
            if s[0] not in ('SELECT', 'LPAREN', 'WITH', 'INSERT', 'UPDATE', 'DELETE', 'CREATE') or any(t not in m.lexeme for t in s) or not m.simulate(s)[0]:
                continue
            if s[0] == 'CREATE' and 'TABLE' not in s[:4]:
                continue
            numbered = m.text_of(s, numbered=True)
            for cat in ('default_int1', 'no_default'):
                out.append(('gsx', numbered, cat))
            allpred = ' '.join('pred' if t == 'ID' else m.lexeme[t] for t in s)
            out.append(('gsx', allpred, 'pred_default'))
            out.append(('gsx', allpred, 'tspred_default'))
            if self.tier == 'thorough':
                out.append(('gsx', numbered, 'api'))
                mixed = ' '.join(('int1' if i % 2 else 'pred') if t == 'ID' else m.lexeme[t] for i, t in enumerate(s))
                out.append(('gsx', mixed, 'pred_default'))
        # trees the other two dialects can build (e.g. OFFSET without LIMIT, which the mindsdb grammar cannot write)
        for d in ('sqlite', 'mysql'):
            m2 = gsx.Model(d)
            f2 = gsx.Families(m2, 1)
            for s in sorted(set(f2.s0_pairs()) | set(f2.s0_edges())):
                if s[0] not in ('SELECT', 'LPAREN', 'WITH', 'INSERT', 'UPDATE', 'DELETE', 'CREATE') or any(t not in m2.lexeme for t in s) or not m2.simulate(s)[0]:
                    continue
                text = ' '.join('int1' if (t == 'ID' and i % 3 == 0) else m2.lexeme[t] if t != 'ID' else 'c%d' % i for i, t in enumerate(s))
                for cat in ('api', 'default_int1', 'pred_default'):
                    out.append(('gsx:' + d, text, cat))
        for sql in OTHER_DIALECT:
            for cat in ('api', 'default_int1', 'no_default'):
                out.append(('gsx:sqlite', sql, cat))
        for i in range(len(self.hcorpus)):
            out.append(('hist', i, None))
        return out

    def run_history(self, res, i):
        from vf import histories
        first = self.hcorpus[i]
        for j, second in enumerate(self.hcorpus):
            for reuse in (False, True):
                planner = histories.new_planner() if reuse else None
                histories.observe(first, planner)
                obs, plan = histories.observe(second, planner)
                res.count('history_plans')
                if obs[0] == 'exc' and obs[1] not in ('PlanningException', 'NotImplementedError'):
                    res.violation(f'internal-error-after-history|{obs[1]}', f'after planning {first!r} ({"same planner object" if reuse else "same process"}), planning {second!r} raised {obs[1]}: {obs[2]}')
                elif plan is not None:
                    inner = Result()
                    self.scan(inner, histories.tree_of(second), plan, second, 'rich', 'hist')
                    for sig, msg in inner.violations:
                        res.violation(sig + '|after-history', f'after planning {first!r} ({"same planner object" if reuse else "same process"}): ' + msg)
        res.key(('hist', i))
        return res

    def kwargs(self, kind, cat):
        import copy
        if kind == 'c08':
            return c08.catalog(cat)
        if kind == 'pred':
            return predq.catalog(cat)[0]
        if kind == 'ts':
            return predq.ts_catalog(*cat)
        if kind == 'dml':
            return copy.deepcopy(DML_CATALOG)
        if cat == 'api':
            return dict(integrations=[{'name': 'int1', 'type': 'data', 'class_type': 'api'}, 'int2'], default_namespace='int1')
        return copy.deepcopy(GSX_CATALOGS[cat])

    def run(self, case):
        res = Result()
        kind, sql, cat = case
        if kind == 'hist':
            return self.run_history(res, sql)
        dialect = kind.split(':', 1)[1] if kind.startswith('gsx:') else 'mindsdb'
        out = parsing.outcome(sql, dialect)
        if out.kind != 'ok' or not isinstance(out.value, PLANNABLE):
            res.count('not_plannable_input')
            return res
        tree = out.value
        try:
            plan = plan_query(tree, **self.kwargs(kind, cat))
        except (PlanningException, NotImplementedError) as e:
            res.count('declared_unsupported')
            res.key(('err', type(e).__name__, str(e)[:40]))
            return res
        except Exception as e:
            res.violation(f'internal-error|{exc_sig(e)}', f'plan_query({sql!r}, catalog={cat}) raised {type(e).__name__}: {str(e)[:150]}')
            return res
        self.scan(res, tree, plan, sql, cat, kind)
        return res

    def scan(self, res, tree, plan, sql, cat, kind):
        """well-formedness of one emitted plan"""
        if not isinstance(plan, QueryPlan):
            res.violation('returns-non-plan', f'{sql!r}: {plan!r}')
            return res
        res.count('plans')
        steps = plan.steps
        res.key(tuple(type(s).__name__ for s in steps) + (kind,))
        for s in steps:
            res.covered('step_class', type(s).__name__)
        if not steps:
            res.violation(f'empty-plan|{type(tree).__name__}', f'{sql!r} [{cat}]: plan has no steps')
            return res
        for i, s in enumerate(steps):
            if s.step_num != i:
                res.violation(f'step-numbering|{type(s).__name__}', f'{sql!r} [{cat}]: steps[{i}].step_num == {s.step_num!r}\n    {steps}')
                break
        for i, s in enumerate(steps):
            self.check_refs(res, s, i, sql, cat, steps)
        last = steps[-1]
        want = {A.Insert: (S.InsertToTable,), A.Update: (S.UpdateToTable,), A.Delete: (S.DeleteStep,), A.CreateTable: (S.SaveToTable, S.CreateTableStep)}.get(type(tree), DATAFRAME_STEPS)
        if not isinstance(last, want):
            res.violation(f'last-step|{type(tree).__name__}|{type(last).__name__}', f'{sql!r} [{cat}]: last step is {type(last).__name__}\n    {steps}')
        # the last step produces the answer: every fetch of the plan has to feed it (a fetch whose result no later step consumes,
        # directly or through other steps, means the answer ignores data the statement reads)
        feeds = {i: set() for i in range(len(steps))}
        top = {id(x): k for k, x in enumerate(steps)}
        for i, s in enumerate(steps):
            for r, _ in reflect.walk(s, want=lambda x: isinstance(x, StepResult) or (isinstance(x, S.PlanStep) and id(x) in top)):
                if isinstance(r, S.PlanStep):
                    if top[id(r)] != i:
                        feeds[i].add(top[id(r)])     # a step held as an object (InsertToTable.dataframe ...)
                    continue
                n = r.step_num
                if isinstance(n, str) and '_' in n:
                    n = n.split('_')[0]
                try:
                    n = int(n)
                except (TypeError, ValueError):
                    continue
                if 0 <= n < len(steps) and n != i:
                    feeds[i].add(n)
        reach, todo = {len(steps) - 1}, [len(steps) - 1]
        while todo:
            for n in feeds[todo.pop()]:
                if n not in reach:
                    reach.add(n)
                    todo.append(n)
        dead = [i for i, s in enumerate(steps) if i not in reach and isinstance(s, (S.FetchDataframeStep, S.ApplyPredictorStep, S.ApplyTimeseriesPredictorStep))]
        if dead:
            res.violation(f'step-does-not-feed-the-answer|{type(steps[dead[0]]).__name__}|{type(last).__name__}',
                          f'{sql!r} [{cat}]: the result of step {dead[0]} is used by no step that leads to the last one\n    {steps}')
        return res

    def check_refs(self, res, step, i, sql, cat, steps, container=None, sub_index=None, sub_ids=()):
        subs = []
        if isinstance(step, S.MapReduceStep):
            subs = step.step if isinstance(step.step, list) else [step.step]
        elif isinstance(step, S.MultipleSteps):
            subs = list(step.steps)
        sub_set = {id(x) for x in subs}
        for r, path in reflect.walk(step, want=lambda x: isinstance(x, StepResult) or (isinstance(x, S.PlanStep) and id(x) in sub_set)):
            if isinstance(r, S.PlanStep):
                continue
            # is this result inside a sub-step? (path starts with the container field)
            inside_sub = None
            if subs and path and path[0] in ('step', 'steps'):
                if len(path) > 1 and isinstance(path[1], int):
                    inside_sub = path[1]
                elif not isinstance(step.step if isinstance(step, S.MapReduceStep) else None, list):
                    inside_sub = 0
            n = r.step_num
            ok = False
            if isinstance(n, int) and not isinstance(n, bool):
                ok = 0 <= n < i
            elif isinstance(n, str) and inside_sub is not None:
                # reference to a sub-step result of the same container: '<container>_<k>' with k earlier
                pre = f'{step.step_num}_'
                if n.startswith(pre) and n[len(pre):].isdigit():
                    ok = int(n[len(pre):]) < inside_sub
            if not ok:
                fld = next((p for p in path if isinstance(p, str)), '?')
                where = f'{type(step).__name__}.{fld}' + ('/sub-step' if inside_sub is not None else '')
                res.violation(f'forward-or-dangling-reference|{where}', f'{sql!r} [{cat}]: step {i} ({type(step).__name__}) refers to Result({n!r}) at {reflect.path_str(path)}\n    {steps}')
                return

    def coverage(self, agg):
        return {'exhaustive': True, 'step_classes_seen': sorted(agg['cover'].get('step_class', ())),
                'rule': 'C08 query model + predictor-join model (<= d non-default features, selected full products) + time-series join queries + '
                        f'{len(DML)} DML/DDL/predictor statements + accepted GSX sentences rooted in plannable statements under naming schemes x catalogs + all ordered pairs of a planner corpus as two-step histories (same process / same planner object); '
                        'distinct_nontrivial = distinct (step class sequence, input family) or error kinds'}

    def describe_case(self, case):
        return {'family': case[0], 'sql': case[1], 'catalog': case[2]}

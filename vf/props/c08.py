"""C08 - executing a federated plan (by the documented meaning of its steps) returns what the
original query returns on one engine holding all tables.

Feature-model enumeration of predictor-free queries over a catalog with two SQL integrations
(int1: t1, t3; int2: t2), x catalog shapes, x all small database contents.  Each query is planned once
(plans are data independent) and the plan is interpreted by PLANX on every database; the reference is
the original text on the same sqlite connection with every integration attached.
"""
import collections
import copy

from mindsdb_sql.exceptions import PlanningException
from mindsdb_sql.planner import plan_query

from vf import parsing, planx, qgen, sqlref
from vf.runner import Check, Result, exc_sig

ATTACH = {'int1': ['t1', 't3'], 'int2': ['t2']}

# every select list exposes the possible sort keys
COLS = 't1.id, t1.a, t2.id AS id2, t2.b'
COLNAMES = ['id', 'a', 'id2', 'b']

SHAPES = ['join', 'in_subquery', 'not_in_subquery', 'scalar_subquery', 'target_subquery', 'union', 'union_all', 'intersect', 'except', 'intersect_all',
          'except_all', 'cte', 'nested', 'join_subselect', 'three', 'three_mixed', 'case_subquery', 'func_subquery', 'single_integration_join',
          'three_keys', 'three_keys_rev', 'three_star', 'in_subquery_join', 'in_subquery_join_rev', 'target_subquery_join', 'exists_subquery',
          'cte_collide', 'cte_collide_join', 'join_subselect_limit', 'join_subselect_star', 'join_subselect_distinct', 'join_subselect_offset',
          'cte_only_in_where_subquery', 'cte_only_in_where_subquery_named_like_table', 'cte_only_in_exists', 'cte_only_in_target_subquery',
          'cte_only_in_not_in', 'cte_only_in_scalar']
# chains of two set operations over three integrations' tables (combinations on which left-to-right grouping and the standard's
# INTERSECT-first grouping agree)
SETCHAINS = [(o1, o2) for o1 in ('UNION', 'UNION ALL', 'INTERSECT', 'EXCEPT') for o2 in ('UNION', 'UNION ALL', 'EXCEPT')] + [('INTERSECT', 'INTERSECT')]
# a select over a derived table whose outer clauses hold a sub-query on another integration
SHAPES += ['derived_where_in_subquery', 'derived_target_subquery', 'derived_where_scalar', 'derived_join_where_in_subquery']
SHAPES += ['setchain_' + (o1 + '__' + o2).lower().replace(' ', '_') for o1, o2 in SETCHAINS]
JOINS = ['JOIN', 'INNER JOIN', 'LEFT JOIN', 'RIGHT JOIN', 'FULL JOIN', 'LEFT OUTER JOIN', 'FULL OUTER JOIN', 'CROSS JOIN', 'implicit']
ONS = [('equi', 't1.id = t2.id'), ('equi_rconst', 't1.id = t2.id AND t2.b = 1'), ('equi_lconst', 't1.id = t2.id AND t1.a = 1'),
       ('nonequi', 't1.a < t2.b'), ('equi_or', 't1.id = t2.id OR t1.a = t2.b'), ('rev_equi', 't2.id = t1.id'), ('equi2', 't1.id = t2.id AND t1.a = t2.b'),
       ('equi_not_rconst', 't1.id = t2.id AND NOT t2.b = 1'), ('not_rconst_equi', 'NOT (t2.b = 1) AND t1.id = t2.id'), ('equi_or_rconst', 't1.id = t2.id OR t2.b = 1'),
       ('equi_or_lconst', 't1.id = t2.id OR t1.a = 1'), ('equi_constfirst', 't1.id = t2.id AND 1 = t2.b'), ('equi_rgt', 't1.id = t2.id AND t2.b > 1'),
       ('equi_constfirst_gt', 't1.id = t2.id AND 1 < t2.b'), ('equi_risnull', 't1.id = t2.id AND t2.b IS NULL'), ('equi_rin', 't1.id = t2.id AND t2.b IN (1, 2)'),
       ('equi_paren_or', 't1.id = t2.id AND (t2.b = 1 OR t1.a = 1)'), ('key_expr', 't1.id = t2.id + 0'), ('key_other', 't1.id = t2.b')]
WHERES = [('none', ''), ('left', 't1.a = 1'), ('right', 't2.b = 1'), ('both', 't1.a = 1 AND t2.b = 1'), ('or', 't1.a = 1 OR t2.b = 1'),
          ('not_right', 'NOT t2.b = 1'), ('not_left', 'NOT t1.a = 1'), ('right_isnull', 't2.b IS NULL'), ('left_isnull', 't1.a IS NULL'),
          ('right_id_isnull', 't2.id IS NULL'), ('between', 't1.a BETWEEN 1 AND 2'), ('in_list', 't2.b IN (1, 2)'), ('colcol', 't1.a = t2.b'),
          ('const_left', '1 = t2.b'), ('neq', 't2.b <> 1'), ('gt', 't1.x > 10'), ('not_paren_and', 'NOT (t1.a = 1 AND t2.b = 1)'),
          ('nested_or', 't1.x > 5 AND (t1.a = 1 OR t2.b = 2)'), ('func', 'coalesce(t2.b, 0) = 0'), ('right_notnull', 't2.b IS NOT NULL'),
          ('left_in_sub', 't1.id IN (SELECT t3.id FROM int1.t3)'), ('right_in_sub', 't2.id IN (SELECT t3.id FROM int1.t3)'),
          ('right_isnot_true', 't2.b IS NOT TRUE'), ('right_is_true', 't2.b IS TRUE'), ('right_isnot_false', 't2.b IS NOT FALSE'), ('left_isnot_true', 't1.a IS NOT TRUE'),
          ('constfirst_lt', '1 < t2.b'), ('constfirst_ge_left', '1 >= t1.a'), ('constfirst_gt_both', '2 > t1.a AND 1 <= t2.b'), ('right_le', 't2.b <= 1'),
          ('right_like', "t2.y LIKE 'a%'"), ('right_not_in', 't2.b NOT IN (1)'), ('not_right_isnull', 'NOT t2.b IS NULL'), ('right_between', 't2.b BETWEEN 1 AND 2'),
          ('or_same_side', 't2.b = 1 OR t2.b = 2'), ('paren_right', '(t2.b = 1)'), ('arith_right', 't2.b + 1 = 2')]
# constant written first x every binary operator x the side whose column it is compared with (a pushed-down condition must keep
# the operand order or mirror the operator; LIKE / NOT LIKE have no mirror image)
for _op, _c in [('=', '1'), ('<>', '1'), ('<', '1'), ('<=', '1'), ('>', '2'), ('>=', '2'), ('LIKE', "'1%'"), ('NOT LIKE', "'1%'"), ('IN', '1'), ('NOT IN', '1'), ('+', '1'), ('-', '3')]:
    for _side, _col in (('left', 't1.a'), ('right', 't2.b')):
        _name = 'constfirst_' + _op.lower().replace(' ', '_').replace('=', 'eq').replace('<', 'lt').replace('>', 'gt').replace('+', 'plus').replace('-', 'minus') + '_' + _side
        if _op in ('IN', 'NOT IN'):
            WHERES.append((_name, f'{_c} {_op} ({_col}, 7)'))
        elif _op in ('+', '-'):
            WHERES.append((_name, f'{_c} {_op} {_col} = 2'))
        else:
            WHERES.append((_name, f'{_c} {_op} {_col}'))
TARGETS = [('cols', COLS), ('star', '*'), ('count', 'count(*) AS n'), ('expr', 't1.id, t1.a, t2.id AS id2, t2.b, t1.a + t2.b AS k'),
           ('left_only', 't1.id, t1.a'), ('right_only', 't2.id AS id2, t2.b'), ('agg', 'sum(t1.x) AS s, max(t2.y) AS m'), ('distinct', 'DISTINCT t1.a, t2.b'),
           ('distinct_star', 'DISTINCT *'), ('distinct_cols', 'DISTINCT t1.id, t1.a, t2.id AS id2, t2.b')]
GROUPS = [('none', ''), ('left', 'GROUP BY t1.a'), ('right', 'GROUP BY t2.b'), ('having', 'GROUP BY t1.a HAVING count(*) > 1')]
ORDERS = [('none', []), ('left', [(0, False)]), ('right', [(2, False)]), ('left_desc', [(0, True)]), ('two', [(1, False), (3, False)]),
          ('right_left', [(3, True), (0, False)])]
LIMITS = [('none', None), ('l1', 1), ('l2', 2)]
OFFSETS = [('none', None), ('o1', 1)]
ALIASES = [('none', 'int1.t1', 'int2.t2', 't1', 't2'), ('as', 'int1.t1 AS p', 'int2.t2 AS s', 'p', 's'), ('upper', 'int1.t1 AS P', 'int2.t2 AS S', 'P', 'S'),
           ('bare', 'int1.t1 p', 'int2.t2 s', 'p', 's')]
CATALOGS = ['names', 'dicts', 'default_int1', 'api_int2', 'legacy_namespace']

FEATURES = collections.OrderedDict([
    ('shape', SHAPES), ('join', JOINS), ('on', ONS), ('where', WHERES), ('targets', TARGETS), ('group', GROUPS), ('order', ORDERS),
    ('limit', LIMITS), ('offset', OFFSETS), ('alias', ALIASES), ('catalog', CATALOGS),
])


def catalog(kind):
    if kind == 'names':
        return dict(integrations=['int1', 'int2'])
    if kind == 'dicts':
        return dict(integrations=[{'name': 'int1', 'type': 'data'}, {'name': 'int2', 'type': 'data'}, {'name': 'proj', 'type': 'project'}], default_namespace='mindsdb')
    if kind == 'default_int1':
        return dict(integrations=['int1', 'int2'], default_namespace='int1')
    if kind == 'api_int2':
        return dict(integrations=[{'name': 'int1', 'type': 'data'}, {'name': 'int2', 'type': 'data', 'class_type': 'api'}])
    if kind == 'legacy_namespace':
        return dict(integrations=['int1', 'int2'], predictor_namespace='mindsdb', predictor_metadata={})
    raise ValueError(kind)


def build(a):
    shape = SHAPES[a['shape']]
    jt = JOINS[a['join']]
    onl, on = ONS[a['on']]
    wl, where = WHERES[a['where']]
    tl, targets = TARGETS[a['targets']]
    gl, group = GROUPS[a['group']]
    ol, ospec = ORDERS[a['order']]
    ll, lim = LIMITS[a['limit']]
    ofl, off = OFFSETS[a['offset']]
    al, lt, rt, la, ra = ALIASES[a['alias']]
    cat = CATALOGS[a['catalog']]
    if off is not None and lim is None:
        return None
    if al != 'none' and 't3' in where:
        return None      # the alias renaming would also hit the text of the sub-query
    names = list(COLNAMES)
    if cat == 'default_int1':
        lt = lt.replace('int1.t1', 't1')

    def ren(s):
        if la != 't1':
            s = s.replace('t1.', la + '.').replace('t2.', ra + '.')
        return s

    if group:
        if tl != 'cols':
            return None
        gcol = 't1.a' if 'left' in gl or gl == 'having' else 't2.b'
        targets = f'{gcol} AS g, count(*) AS n'
        names = ['g', 'n']
        ospec = [(0, d) for (p, d) in ospec[:1]]
    elif tl in ('star', 'distinct_star'):
        names = ['id', 'a', 'x', 'id2', 'b', 'y']
        ospec = [({0: 0, 1: 1, 2: 3, 3: 4}[p], d) for p, d in ospec]
    elif tl in ('count', 'agg'):
        if ospec:
            return None
        names = ['n'] if tl == 'count' else ['s', 'm']
    elif tl == 'left_only':
        names = ['id', 'a']
        if any(p > 1 for p, d in ospec):
            return None
    elif tl == 'right_only':
        names = ['id2', 'b']
        ospec2 = []
        for p, d in ospec:
            if p < 2:
                return None
            ospec2.append((p - 2, d))
        ospec = ospec2
    elif tl == 'distinct':
        names = ['a', 'b']
        ospec2 = []
        for p, d in ospec:
            if p not in (1, 3):
                return None
            ospec2.append(({1: 0, 3: 1}[p], d))
        ospec = ospec2
    elif tl == 'expr':
        names = COLNAMES + ['k']

    def tail(order_names):
        s = ''
        if ospec:
            s += ' ORDER BY ' + ', '.join(order_names[p] + (' DESC' if d else '') for p, d in ospec)
        return s

    def lim_sql():
        s = ''
        if lim is not None:
            s += f' LIMIT {lim}'
            if off is not None:
                s += f' OFFSET {off}'
        return s

    # order expressions as written in the query (qualified columns where the tables are in scope)
    qual = {'id': 't1.id', 'a': 't1.a', 'x': 't1.x', 'id2': 't2.id', 'b': 't2.b', 'y': 't2.y', 'g': 'g', 'n': 'n', 'k': 'k', 's': 's', 'm': 'm'}
    onames_q = [ren(qual[n]) for n in names]
    simple = not (where or group or ospec or lim is not None or tl != 'cols')
    if shape == 'join':
        if jt == 'implicit':
            frm = f'{lt}, {rt}'
            if onl != 'equi':
                return None
            w = ' WHERE ' + ren(on + (' AND ' + where if where else ''))
        elif jt == 'CROSS JOIN':
            if onl != 'equi':
                return None
            frm = f'{lt} CROSS JOIN {rt}'
            w = (' WHERE ' + ren(where)) if where else ''
        else:
            frm = f'{lt} {jt} {rt} ON {ren(on)}'
            w = (' WHERE ' + ren(where)) if where else ''
        body = f'SELECT {ren(targets)} FROM {frm}{w}' + (' ' + ren(group) if group else '')
        full = body
        sql = body + tail(onames_q) + lim_sql()
    else:
        if a['join'] or a['on']:
            if shape not in ('three', 'three_mixed', 'nested', 'single_integration_join', 'three_keys', 'three_keys_rev', 'three_star') or a['on']:
                return None
        if a['alias'] and shape not in ('join_subselect',):
            return None
        j = jt if jt not in ('implicit', 'CROSS JOIN') else 'JOIN'
        t1 = 't1' if cat == 'default_int1' else 'int1.t1'
        if shape in ('in_subquery', 'not_in_subquery', 'scalar_subquery', 'target_subquery', 'case_subquery', 'func_subquery'):
            if a['targets'] or group or wl not in ('none', 'left', 'gt', 'left_isnull', 'between'):
                return None
            sub = {'in_subquery': 't1.id IN (SELECT t2.id FROM int2.t2)',
                   'not_in_subquery': 't1.id NOT IN (SELECT t2.id FROM int2.t2 WHERE t2.id IS NOT NULL)',
                   'scalar_subquery': 't1.a = (SELECT min(t2.b) FROM int2.t2)'}.get(shape)
            names = ['id', 'a']
            tg = 't1.id, t1.a'
            if shape == 'target_subquery':
                tg = 't1.id, t1.a, (SELECT max(t2.b) FROM int2.t2) AS m'
                names = ['id', 'a', 'm']
            elif shape == 'case_subquery':
                tg = 't1.id, t1.a, CASE WHEN t1.a = (SELECT min(t2.b) FROM int2.t2) THEN 1 ELSE 0 END AS m'
                names = ['id', 'a', 'm']
            elif shape == 'func_subquery':
                tg = 't1.id, t1.a, coalesce((SELECT min(t2.b) FROM int2.t2), 0) AS m'
                names = ['id', 'a', 'm']
            conds = [c for c in (sub, where) if c]
            body = f'SELECT {tg} FROM {t1}' + (' WHERE ' + ' AND '.join(conds) if conds else '')
            if any(p > 1 for p, d in ospec):
                return None
            full = body
            sql = body + tail(['t1.id', 't1.a', 'm']) + lim_sql()
        elif shape in ('union', 'union_all', 'intersect', 'except', 'intersect_all', 'except_all'):
            if a['targets'] or group or where or ospec or lim is not None:
                return None
            op = {'union': 'UNION', 'union_all': 'UNION ALL', 'intersect': 'INTERSECT', 'except': 'EXCEPT', 'intersect_all': 'INTERSECT ALL', 'except_all': 'EXCEPT ALL'}[shape]
            body = f'SELECT t1.id, t1.a FROM {t1} {op} SELECT t2.id, t2.b FROM int2.t2'
            names = ['id', 'a']
            full = sql = body
            if shape in ('intersect_all', 'except_all'):
                spec = []
                return dict(sql=sql, full_sql=full, spec=[], limit=None, offset=None, catalog=cat, label=label(a),
                            ref_parts=(f'SELECT t1.id, t1.a FROM {t1}', shape, 'SELECT t2.id, t2.b FROM int2.t2'))
        elif shape.startswith('derived_'):
            if a['targets'] or group or wl not in ('none', 'left', 'gt'):
                return None
            inner = f'SELECT t1.id, t1.a, t1.x FROM {t1}'
            w2 = where.replace('t1.', 's.') if where else ''
            names = ['id', 'a']
            tg = 's.id, s.a'
            frm = f'({inner}) AS s'
            if shape == 'derived_where_in_subquery':
                cond = 's.id IN (SELECT t2.id FROM int2.t2)'
            elif shape == 'derived_where_scalar':
                cond = 's.a = (SELECT min(t2.b) FROM int2.t2)'
            elif shape == 'derived_target_subquery':
                tg, names, cond = 's.id, s.a, (SELECT max(t2.b) FROM int2.t2) AS m', ['id', 'a', 'm'], ''
            else:
                frm = f'({inner}) AS s JOIN int1.t3 ON s.id = t3.id'
                cond = 's.id IN (SELECT t2.id FROM int2.t2)'
            conds = [c for c in (cond, w2) if c]
            body = f'SELECT {tg} FROM {frm}' + (' WHERE ' + ' AND '.join(conds) if conds else '')
            if any(p > 1 for p, d in ospec):
                return None
            full = body
            sql = body + tail(['s.id', 's.a', 'm']) + lim_sql()
        elif shape.startswith('setchain_'):
            if a['targets'] or group or where or ospec or lim is not None:
                return None
            o1, o2 = SETCHAINS[[('setchain_' + (x + '__' + y).lower().replace(' ', '_')) for x, y in SETCHAINS].index(shape)]
            body = f'SELECT t1.id, t1.a FROM {t1} {o1} SELECT t2.id, t2.b FROM int2.t2 {o2} SELECT t3.id, t3.c FROM int1.t3'
            names = ['id', 'a']
            full = sql = body
        elif shape == 'cte':
            if a['targets'] or group:
                return None
            w = (' WHERE ' + where.replace('t1.', 'q.').replace('t2.', 't2.')) if where else ''
            if 't3' in where:
                return None
            body = f'WITH q AS (SELECT t1.id, t1.a, t1.x FROM {t1}) SELECT q.id, q.a, t2.id AS id2, t2.b FROM q JOIN int2.t2 ON q.id = t2.id{w}'
            full = body
            sql = body + tail(['q.id', 'q.a', 't2.id', 't2.b']) + lim_sql()
        elif shape == 'nested':
            if a['targets'] or group or where:
                return None
            inner = f'SELECT t1.id, t1.a, t2.id AS id2, t2.b FROM {t1} {j} int2.t2 ON t1.id = t2.id'
            body = f'SELECT * FROM ({inner}) AS sq'
            full = body
            sql = body + tail(['id', 'a', 'id2', 'b']) + lim_sql()
        elif shape == 'join_subselect':
            if a['targets'] or group or wl not in ('none', 'left', 'gt'):
                return None
            body = f'SELECT t1.id, t1.a, s.id AS id2, s.b FROM {t1} JOIN (SELECT t2.id, t2.b FROM int2.t2 WHERE t2.b = 1) AS s ON t1.id = s.id' + (' WHERE ' + where if where else '')
            full = body
            sql = body + tail(['t1.id', 't1.a', 's.id', 's.b']) + lim_sql()
        elif shape in ('three', 'three_mixed'):
            if a['targets'] or group:
                return None
            j2 = 'LEFT JOIN' if shape == 'three_mixed' else j
            body = f'SELECT t1.id, t1.a, t2.id AS id2, t2.b, t3.c FROM {t1} {j} int2.t2 ON t1.id = t2.id {j2} int1.t3 ON t2.id = t3.id' + (' WHERE ' + where if where else '')
            names = COLNAMES + ['c']
            full = body
            sql = body + tail(['t1.id', 't1.a', 't2.id', 't2.b']) + lim_sql()
        elif shape in ('three_keys', 'three_keys_rev', 'three_star'):
            # keys with the same column name coming from different earlier tables / one table joined twice on different keys
            if a['targets'] or group:
                return None
            if shape == 'three_keys':
                frm = f'{t1} {j} int2.t2 ON t1.id = t2.b {j} int1.t3 ON t2.id = t3.c'
            elif shape == 'three_keys_rev':
                frm = f'{t1} {j} int2.t2 ON t2.b = t1.id {j} int1.t3 ON t3.c = t2.id'
            else:
                frm = f'{t1} {j} int2.t2 ON t1.id = t2.id {j} int1.t3 ON t1.a = t3.id'
            body = f'SELECT t1.id, t1.a, t2.id AS id2, t2.b, t3.c FROM {frm}' + (' WHERE ' + where if where else '')
            names = COLNAMES + ['c']
            full = body
            sql = body + tail(['t1.id', 't1.a', 't2.id', 't2.b']) + lim_sql()
        elif shape in ('in_subquery_join', 'in_subquery_join_rev', 'target_subquery_join', 'exists_subquery'):
            # a sub-query whose own FROM joins a table of the outer integration with a table of another one
            if a['targets'] or group or wl not in ('none', 'left', 'gt'):
                return None
            inner = {'in_subquery_join': 'SELECT t3.id FROM int1.t3 JOIN int2.t2 ON t3.id = t2.id',
                     'in_subquery_join_rev': 'SELECT t2.id FROM int2.t2 JOIN int1.t3 ON t3.id = t2.id',
                     'target_subquery_join': 'SELECT max(t2.b) FROM int1.t3 JOIN int2.t2 ON t3.id = t2.id',
                     'exists_subquery': 'SELECT t2.id FROM int2.t2 WHERE t2.b = 1'}[shape]
            names = ['id', 'a']
            tg = 't1.id, t1.a'
            if shape == 'target_subquery_join':
                tg = f't1.id, t1.a, ({inner}) AS m'
                names = ['id', 'a', 'm']
                conds = [where] if where else []
            elif shape == 'exists_subquery':
                conds = [c for c in (f'EXISTS ({inner})', where) if c]
            else:
                conds = [c for c in (f't1.id IN ({inner})', where) if c]
            body = f'SELECT {tg} FROM {t1}' + (' WHERE ' + ' AND '.join(conds) if conds else '')
            if any(p > 1 for p, d in ospec):
                return None
            full = body
            sql = body + tail(['t1.id', 't1.a', 'm']) + lim_sql()
        elif shape in ('cte_collide', 'cte_collide_join'):
            # a CTE named like a table of another integration, that table referenced by its qualified name in the same statement
            if a['targets'] or group or wl not in ('none', 'left', 'gt'):
                return None
            cte = f'WITH t2 AS (SELECT t1.id, t1.a FROM {t1} WHERE t1.a > 1)'
            if shape == 'cte_collide':
                body = f'{cte} SELECT t1.id, t1.a, t2.id AS id2, t2.b FROM {t1} JOIN int2.t2 ON t1.id = t2.id WHERE t1.id IN (SELECT id FROM t2)' + (' AND ' + where if where else '')
            else:
                body = f'{cte} SELECT t1.id, t1.a, q.id AS id2, q.a AS b FROM {t1} JOIN int2.t2 AS s ON t1.id = s.id JOIN t2 AS q ON q.id = s.id' + (' WHERE ' + where if where else '')
            full = body
            sql = body + tail(['t1.id', 't1.a', 'id2', 'b']) + lim_sql()
        elif shape.startswith('cte_only_in_'):
            # a CTE over another integration that is referenced only from a sub-query of a single-table select
            if a['targets'] or group or wl not in ('none', 'left', 'gt'):
                return None
            cname = 't3' if shape.endswith('named_like_table') else 'q'
            cte = f'WITH {cname} AS (SELECT t2.id, t2.b FROM int2.t2 WHERE t2.b = 1)'
            names = ['id', 'a']
            tg = 't1.id, t1.a'
            if shape == 'cte_only_in_exists':
                cond = f'EXISTS (SELECT 1 FROM {cname} WHERE {cname}.b = 1)'
            elif shape == 'cte_only_in_target_subquery':
                tg, names, cond = f't1.id, t1.a, (SELECT max(b) FROM {cname}) AS m', ['id', 'a', 'm'], ''
            elif shape == 'cte_only_in_not_in':
                cond = f't1.id NOT IN (SELECT id FROM {cname} WHERE id IS NOT NULL)'
            elif shape == 'cte_only_in_scalar':
                cond = f't1.id = (SELECT min(id) FROM {cname})'
            else:
                cond = f't1.id IN (SELECT id FROM {cname})'
            conds = [c for c in (cond, where) if c]
            body = f'{cte} SELECT {tg} FROM {t1}' + (' WHERE ' + ' AND '.join(conds) if conds else '')
            if any(p > 1 for p, d in ospec):
                return None
            full = body
            sql = body + tail(['t1.id', 't1.a', 'm']) + lim_sql()
        elif shape in ('join_subselect_limit', 'join_subselect_star', 'join_subselect_distinct', 'join_subselect_offset'):
            # a derived table with its own ORDER BY / LIMIT / DISTINCT, filtered again from outside
            if a['targets'] or group or wl not in ('none', 'left', 'gt', 'right', 'neq', 'right_le', 'right_between'):
                return None
            inner = {'join_subselect_limit': 'SELECT * FROM int2.t2 ORDER BY b, id, y LIMIT 2', 'join_subselect_star': 'SELECT * FROM int2.t2',
                     'join_subselect_distinct': 'SELECT DISTINCT t2.id, t2.b FROM int2.t2',
                     'join_subselect_offset': 'SELECT * FROM int2.t2 ORDER BY b, id, y LIMIT 2 OFFSET 1'}[shape]
            w2 = where.replace('t2.', 's.') if where else ''
            body = f'SELECT t1.id, t1.a, s.id AS id2, s.b FROM {t1} JOIN ({inner}) AS s ON t1.id = s.id' + (' WHERE ' + w2 if w2 else '')
            full = body
            sql = body + tail(['t1.id', 't1.a', 's.id', 's.b']) + lim_sql()
        elif shape == 'single_integration_join':
            if a['targets'] or group or wl not in ('none', 'left', 'gt', 'not_left'):
                return None
            body = f'SELECT t1.id, t1.a, t3.id AS id2, t3.c AS b FROM {t1} {j} int1.t3 ON t1.id = t3.id' + (' WHERE ' + where if where else '')
            full = body
            sql = body + tail(['t1.id', 't1.a', 't3.id', 't3.c']) + lim_sql()
        else:
            return None
    spec = [(p, d, None) for p, d in ospec]
    return dict(sql=sql, full_sql=full, spec=spec, limit=lim, offset=off, catalog=cat, label=label(a))


def label(a, for_signature=False):
    out = []
    for name, opts in FEATURES.items():
        k = a[name]
        if k:
            o = opts[k]
            out.append(f'{name}={o[0] if isinstance(o, tuple) else o}')
    return ','.join(out) or 'default'


class CHECK(Check):
    pid = 'C08'
    level = 'exploration'
    case_timeout = 900      # one case = one statement / plan on every database of the tier
    assumptions = ['sqlite 3.40 is the reference engine; the meaning of each step is the docstring in planner/steps.py as implemented by vf/planx.py',
                   'a Parameter(Result) stands for the first column of that result: a list after IN / NOT IN, otherwise a scalar (NULL if empty)',
                   'dataframe columns carry the table alias (or table name) of the fetch they come from; the plan query addresses them as alias.column']

    def setup(self, tier, seed):
        self.tier, self.seed = tier, seed
        self.init_dbs(tier)
        self.cons = None

    def init_dbs(self, tier):
        """thorough: all databases for cases with <= 2 non-default features, the quick database set for cases with 3"""
        self.dbs = sqlref.databases(tier)
        self.narrow = None
        self.active = None
        if tier == 'thorough':
            keyf = lambda db: repr(sorted(db.items()))
            pos = {keyf(db): i for i, db in enumerate(self.dbs)}
            self.narrow = []
            for db in sqlref.databases('quick'):
                k = keyf(db)
                if k not in pos:
                    pos[k] = len(self.dbs)
                    self.dbs.append(db)
                self.narrow.append(pos[k])

    def db_iter(self):
        idx = self.active if self.active is not None else range(len(self.dbs))
        for i in idx:
            yield self.cons[i], self.dbs[i]

    def choose_dbs(self, nondefault):
        self.active = self.narrow if (self.narrow is not None and nondefault > 2) else None

    def cases(self):
        d = 3 if self.tier == 'thorough' else 2
        out = []
        fp = [('join', 'on'), ('join', 'where'), ('join', 'order', 'limit'), ('join', 'group'), ('join', 'targets'), ('join', 'limit', 'offset'),
              ('join', 'catalog', 'limit'), ('shape', 'order', 'limit'), ('shape', 'join'), ('join', 'alias', 'where')]
        for a in qgen.assignments(FEATURES, d, full_products=fp):
            if build(a) is not None:
                out.append(tuple(a[n] for n in FEATURES))
        return out

    def ensure(self):
        if self.cons is None:
            self.cons = [sqlref.make_db(db, attach=ATTACH) for db in self.dbs]

    def plan(self, q, reuse=False):
        out = parsing.outcome(q['sql'], 'mindsdb')
        if out.kind != 'ok':
            return ('notparsed', out)
        try:
            if reuse:
                # the same statement planned twice by one QueryPlanner object: the second plan is the one judged
                from mindsdb_sql.planner.query_planner import QueryPlanner
                planner = QueryPlanner(**catalog(q['catalog']))
                planner.from_query(parsing.outcome(q['sql'], 'mindsdb').value)
                plan = planner.from_query(out.value)
            else:
                plan = plan_query(out.value, **catalog(q['catalog']))
        except (PlanningException, NotImplementedError) as e:
            return ('unsupported', e)
        except Exception as e:
            return ('internal', e)
        return ('plan', plan)

    @staticmethod
    def strip_fetch_limits(plan):
        """the same plan with LIMIT / OFFSET removed from every fetch query (used to attribute a failure to a pushed-down LIMIT)"""
        from mindsdb_sql.planner import steps as S
        n = 0
        for st in plan.steps:
            if isinstance(st, S.FetchDataframeStep) and st.query is not None and (getattr(st.query, 'limit', None) is not None or getattr(st.query, 'offset', None) is not None):
                st.query.limit = None
                st.query.offset = None
                n += 1
        return n

    def evaluate(self, q, res=None, strip_limits=False, reuse=False):
        self.ensure()
        kind, plan = self.plan(q, reuse)
        if strip_limits and kind == 'plan' and not self.strip_fetch_limits(plan):
            return [('rows-differ', 'no fetch carries a LIMIT')]
        if kind != 'plan':
            if res:
                res.count('plan_' + kind)
            if kind == 'notparsed':
                return [('original-not-parsed', f'{q["sql"]!r}: {plan.kind} {str(plan.exc)[:120]}')]
            return []
        if res:
            res.count('plans')
            res.covered('step_classes', tuple(type(s).__name__ for s in plan.steps))
        fails = []
        seen = set()
        for con, db in self.db_iter():
            if 'ref_parts' in q:
                l, op, r = q['ref_parts']
                rl, rr = sqlref.run(con, l), sqlref.run(con, r)
                cl, cr = collections.Counter(rl[2]), collections.Counter(rr[2])
                rows = list(((cl & cr) if op == 'intersect_all' else (cl - cr)).elements())
                ref_full = ref = ('rows', [], rows)
            else:
                ref_full = sqlref.run(con, ref_sql(q['full_sql']))
                ref = sqlref.run(con, ref_sql(q['sql']))
            if ref[0] != 'rows' or ref_full[0] != 'rows':
                if res:
                    res.count('original_not_executable_in_reference')
                return [('oracle-original-not-executable', f'{q["sql"]!r}: {ref[1] if ref[0] == "error" else ref_full[1]}')]
            ok, why = sqlref.legal_answer(ref_full[2], ref[2], q['spec'], q['limit'], q['offset'])
            if not ok:
                return [('oracle-original-answer-judged-illegal', f'{q["sql"]!r}: {why} on {db}')]
            it = planx.Interp(con)
            try:
                fr = it.run_plan(plan.steps)
                got = it.rows(fr)
                err = None
            except planx.PlanExecError as e:
                got, err = None, e
            finally:
                it.cleanup()
            if res:
                res.count('interpretations')
            if err is not None:
                k = 'step-cannot-be-carried-out'
                if k not in seen:
                    seen.add(k)
                    fails.append((k, f'{q["sql"]!r} [{q["catalog"]}]: {err}\n    plan: {plan.steps}'))
                continue
            ok, why = sqlref.legal_answer(ref_full[2], got, q['spec'], q['limit'], q['offset'])
            if not ok and 'rows-differ' not in seen:
                seen.add('rows-differ')
                fails.append(('rows-differ', f'{q["sql"]!r} [{q["catalog"]}]: {why}; database {db}; reference -> {ref[2][:5]}, plan -> {got[:5]}\n    plan: '
                              + ' ; '.join(f'{w}: {s}' for w, _, s in it.trace)))
        return fails

    def run(self, case):
        res = Result()
        a = dict(zip(FEATURES, case))
        q = build(a)
        res.key(q['sql'] + '|' + q['catalog'])
        self.choose_dbs(sum(1 for v in case if v))
        fails = self.evaluate(q, res)
        if not fails:
            # a planner object that has planned this statement before must plan it the same way; if it does not, the second plan is judged too
            k1, p1 = self.plan(q)
            k2, p2 = self.plan(q, reuse=True)
            if k1 == 'plan':
                from vf import histories
                same = k2 == 'plan' and histories.canon(repr(p1.steps)) == histories.canon(repr(p2.steps))
                res.count('second_plans_on_a_reused_planner')
                if not same:
                    res.count('second_plans_that_differ')
                    f2 = self.evaluate(q, reuse=True) if k2 == 'plan' else [('second-planning-fails', f'{q["sql"]!r}: {k2} {p2!r}')]
                    for k, msg in f2:
                        res.violation(f'reused-planner|{k}|{SHAPES[a["shape"]]}', 'second plan of the statement on one QueryPlanner object: ' + msg)
        for k, msg in fails:
            cur = dict(a)
            if k == 'rows-differ' and q['limit'] is not None and not any(k2 == 'rows-differ' for k2, _ in self.evaluate(q, strip_limits=True)):
                # the plan is right once LIMIT / OFFSET are taken out of its fetch queries: one root cause, whatever else the query contains
                jt = JOINS[a['join']] if SHAPES[a['shape']] == 'join' else SHAPES[a['shape']]
                jclass = 'inner' if jt in ('JOIN', 'INNER JOIN', 'implicit', 'CROSS JOIN') else jt
                res.violation(f'rows-differ|limit-pushed-into-fetch|{jclass}|{"api" if CATALOGS[a["catalog"]] == "api_int2" else "sql"}',
                              msg + f'\n    attribution: the plan is correct when LIMIT/OFFSET are removed from its fetch queries (features: {label(a)})')
                continue
            if not k.startswith('oracle'):
                for name in FEATURES:
                    if cur[name] == 0:
                        continue
                    trial = dict(cur)
                    trial[name] = 0
                    q2 = build(trial)
                    if q2 is None:
                        continue
                    if any(k2 == k for k2, _ in self.evaluate(q2)):
                        cur = trial
            res.violation(f'{k}|{label(cur)}', msg + f'\n    minimal failing features: {label(cur)} (from {label(a)})')
        return res

    def coverage(self, agg):
        return {'exhaustive': True, 'databases': len(self.dbs), 'databases_used_for_cases_with_3_deviations': len(self.narrow) if self.narrow is not None else len(self.dbs),
                'features': {n: [o[0] if isinstance(o, tuple) else o for o in opts] for n, opts in FEATURES.items()},
                'plan_shapes_seen': len(agg['cover'].get('step_classes', ())),
                'rule': 'all feature assignments with <= d non-default features (quick 2, thorough 3) + full products join x {on, where, order x limit, group, '
                        'targets, limit x offset, catalog x limit, alias x where}, shape x {order x limit, join}; each plan interpreted on every database; a second plan of the same statement on one QueryPlanner object must equal the first (else it is interpreted too); '
                        'distinct_nontrivial = distinct (SQL text, catalog)'}

    def describe_case(self, case):
        q = build(dict(zip(FEATURES, case)))
        return {'features': q['label'], 'catalog': q['catalog'], 'sql': q['sql']}


def ref_sql(sql):
    """the reference engine lacks INTERSECT ALL / EXCEPT ALL: handled by the caller via multiset algebra marker"""
    return sql

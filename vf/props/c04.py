"""C04 - string, number and identifier tokens keep exactly the value the SQL text denotes (both directions).

Decode: every body of length <= L over a collision alphabet, wrapped in each quote style, in two
positions; judged only when the live lexer tokenises it as ONE literal.  The denotation is computed by
an independent scanner (delimiters = first/last char, doubled delimiter = one, backslash-quote = quote
where the dialect treats backslash-x as a unit, both readings accepted for other backslash escapes).
Numbers and identifier paths likewise.  Encode: values placed in Constant / Identifier / Variable must
print to text that lexes as one literal / path and denotes the value again.
"""
import itertools

from mindsdb_sql.parser import ast as A

from vf import gsx, parsing
from vf.runner import Check, Result, exc_sig

ALPHA = ['a', ' ', "'", '"', '`', '\\', '%', '.', '\n', 'é', '漢']


def units(body, q, backslash_unit):
    """scan a literal body into units; None if it is not one well-formed literal body"""
    out = []
    i = 0
    while i < len(body):
        c = body[i]
        if backslash_unit and c == '\\':
            if i + 1 >= len(body):
                return None
            out.append(body[i:i + 2])
            i += 2
        elif c == q:
            if q == "'" and body[i:i + 2] == "''":
                out.append("''")
                i += 2
            else:
                return None
        else:
            out.append(c)
            i += 1
    return out


def denotations(us, q):
    """set of acceptable values for a unit list"""
    alts = []
    for u in us:
        if u == q + q:
            alts.append([q])
        elif len(u) == 2 and u[0] == '\\':
            x = u[1]
            if x in ("'", '"'):
                alts.append([x])
            elif x == '\\':
                alts.append(['\\', '\\\\'])
            else:
                esc = {'n': '\n', 't': '\t', 'r': '\r', '0': '\0', 'b': '\b', 'Z': '\x1a'}.get(x, x)
                alts.append(list({u, esc, x}))
        else:
            alts.append([u])
    vals = set()
    for combo in itertools.product(*alts):
        vals.add(''.join(combo))
        if len(vals) > 64:
            break
    return vals


def unit_pattern(us, q):
    out = []
    for u in us:
        if u == q + q:
            out.append('QQ')
        elif u[0] == '\\' and len(u) == 2:
            out.append('\\' + ('q' if u[1] == q else 'o' if u[1] in '\'"' else '\\' if u[1] == '\\' else 'x'))
        elif u in '\'"`':
            out.append('o')
        else:
            out.append('c')
    # keep first, last and whether something is in between
    if len(out) > 2:
        out = [out[0], '*', out[-1]]
    return ' '.join(out)


def ident_parts(text):
    """independent reading of an identifier path: split at dots outside back-quotes / double quotes, strip the quotes"""
    parts, cur, inq = [], '', False
    for c in text:
        if c == '`' and inq != '"':
            inq = False if inq else '`'
        elif c == '"' and inq != '`':
            inq = False if inq else '"'
        elif c == '.' and not inq:
            parts.append(cur)
            cur = ''
        else:
            cur += c
    parts.append(cur)
    return parts


# escape units (so that runs of backslashes next to quotes occur with every parity) and characters that text clean-up code likes to touch
UNITS = ['\\\\', "\\'", "''", '\\"', 'a', '"', '\\']
ODD_CHARS = ['\u2018', '\u2019', '\u201c', '\u201d', '\u00a0', '\t', '\r', '\u2028', '\u200b', '\u3000', '\ufeff', '\x0b', '\x0c', '\u00ad', '\u202e']

ID_FORMS = ['abc', 'aBc', 'ABC', '`abc`', '`select`', '`a b`', '`a.b`', '1a', '`1a`', '`é`', '_x', 'a$b', '`group by`', '`A B`', '`a-b`', '`1`']
DQ_FORMS = ['"abc"', '"a.b"', '"a b"', '"select"', '"A.b.C"']   # double-quoted parts (where a dialect reads them as names)


class CHECK(Check):
    pid = 'C04'
    level = 'exploration'
    assumptions = ['a text is judged only if the live lexer tokenises the literal as exactly one token (what the dialect commits to)',
                   'for backslash-backslash and backslash-letter both the raw and the decoded reading are accepted']

    def setup(self, tier, seed):
        self.tier, self.seed = tier, seed
        self.models = {d: gsx.Model(d) for d in gsx.DIALECTS}
        self.bs_unit = {}
        for d, m in self.models.items():
            self.bs_unit[d] = {}
            for q in ("'", '"'):
                try:
                    toks = m.lex_types(f"select {q}\\{q}{q}")
                    self.bs_unit[d][q] = toks in (['SELECT', 'QUOTE_STRING'], ['SELECT', 'DQUOTE_STRING'])
                except Exception:
                    self.bs_unit[d][q] = False

    def cases(self):
        L = 4 if self.tier == 'thorough' else 3
        out = []
        for d in gsx.DIALECTS:
            for n in range(0, L + 1):
                for tup in itertools.product(ALPHA, repeat=n):
                    body = ''.join(tup)
                    for q in ("'", '"'):
                        out.append((d, 'str', q, body, 'select'))
                        if n <= 2 or self.tier == 'thorough':
                            out.append((d, 'str', q, body, 'where'))
            seen_bodies = set()
            for n in range(1, 5):
                for tup in itertools.product(UNITS, repeat=n):
                    body = ''.join(tup)
                    if body in seen_bodies:
                        continue
                    seen_bodies.add(body)
                    for q in ("'", '"'):
                        out.append((d, 'str', q, body, 'select'))
            for ch in ODD_CHARS:
                for body in (ch, 'a' + ch + 'b', ch + 'a', 'a' + ch):
                    for q in ("'", '"'):
                        out.append((d, 'str', q, body, 'select'))
                        out.append((d, 'str', q, body, 'where'))
                    out.append((d, 'ident', None, '`' + body + '`', 'column'))
                    out.append((d, 'ident', None, 't.`' + body + '`', 'column'))
            for num in ['0', '7', '007', '12', '1.0', '0.50', '1.50', '0.00001', '0.0000001', '100000000000000000000.0', '123456789012345678901234567890', '00', '3.14159', '10.0', '1e5'] + [str(i) for i in range(20, 40)]:
                for pos in ('select', 'where', 'neg', 'limit'):
                    out.append((d, 'num', None, num, pos))
            forms = ID_FORMS
            for n in (1, 2, 3):
                for tup in itertools.product(forms, repeat=n):
                    if n == 3 and self.tier != 'thorough' and len(set(tup)) == 3 and tup[0] not in ('abc', '`a.b`'):
                        continue
                    for pos in ('column', 'table') + (('alias',) if n == 1 else ()):
                        out.append((d, 'ident', None, '.'.join(tup), pos))
            # double-quoted parts in every position of a path of 1-3 parts (the other parts plain / back-quoted with a dot)
            for n in (1, 2, 3):
                for tup in itertools.product(['abc', '`a.b`'] + DQ_FORMS, repeat=n):
                    if any(x in DQ_FORMS for x in tup):
                        for pos in ('column', 'table'):
                            out.append((d, 'ident', None, '.'.join(tup), pos))
        # encode direction
        vals = []
        for n in range(0, L + 1):
            for tup in itertools.product(ALPHA, repeat=n):
                vals.append(''.join(tup))
        for ch in ODD_CHARS:
            for v in (ch, 'a' + ch + 'b'):
                for d in gsx.DIALECTS:
                    out.append((d, 'enc_const', None, v, None))
                    out.append((d, 'enc_ident', None, ['t', 'a' + ch + 'b'], None))
        for v in vals:
            out.append(('mindsdb', 'enc_const', None, v, None))
        for v in vals:
            if not any(c in v for c in '\'"\\'):
                out.append(('mysql', 'enc_const', None, v, None))
                out.append(('sqlite', 'enc_const', None, v, None))
        for v in [0, 7, -3, 10 ** 30, 1.5, 0.5, -2.25, True, False, None, 52.5200066, 3.14159265358979, 0.1, 100.0, 123456.789, 1e-05, 1e-07, 1e+20, 2.5e-10, 1.5e+300, 1 / 81000, 1.2345678e-12, 5e-18, 4.9e-324, 1e-300, 1.7976931348623157e+308, 2 ** 0.5 * 1e-9, -3.3e-15, 1e+16, 123456789012345680.0]:
            for d in gsx.DIALECTS:
                out.append((d, 'enc_num', None, v, None))
        part_vals = ['abc', 'aBc', 'select', 'a b', 'a.b', '1a', 'é', 'group by', 'primary_key', 'x-y', '1', 'from', 'order', 'KEY', 'knowledge_base', 'nulls first']
        for n in (1, 2):
            for tup in itertools.product(part_vals, repeat=n):
                for d in gsx.DIALECTS:
                    out.append((d, 'enc_ident', None, list(tup), None))
        twins = [('strasse', 'stra\u00dfe'), ('STRASSE', 'stra\u00dfe'), ('fuss', 'Fu\u00df'), ('fi', '\ufb01'), ('FI', '\ufb01'), ('i', '\u0130'), ('I', '\u0131'), ('k', '\u212a'),
                 ('abc', 'ABC'), ('select1', 'SELECT'), ('from_', 'FROM'), ('a', 'a b'), ('ab', 'a.b'), ('x', 'x '), ('e', '\u00e9'), ('st', '\ufb06')]
        for a_, b_ in twins:
            for d in gsx.DIALECTS:
                out.append((d, 'enc_ident_seq', None, [a_, b_], None))
                out.append((d, 'enc_ident_seq', None, [b_, a_], None))
        for v in ['v', 'v.w', 'a b', 'A', '$x', 'a-b', 'select', 'abc\n', 'a\nb', 'a ', 'a\tb', 'a.b\n', 'a1', 'aé']:   # names the lexers can express (first character a letter, _ . or $)
            for sysv in (False, True):
                for d in ('mindsdb', 'mysql'):
                    out.append((d, 'enc_var', None, v, sysv))
        return out

    # ------------------------------------------------------------------
    def run(self, case):
        res = Result()
        d, kind, q, payload, pos = case
        m = self.models[d]
        return getattr(self, 'run_' + kind)(res, d, m, q, payload, pos)

    def _parse_value(self, res, d, text, pos):
        out = parsing.outcome(text, d)
        if out.kind != 'ok':
            return None, out
        t = out.value
        try:
            if pos == 'select':
                node = t.targets[0]
            elif pos == 'where':
                node = t.where.args[1]
            elif pos == 'neg':
                node = t.targets[0]
            elif pos == 'limit':
                node = t.limit
            elif pos == 'column':
                node = t.targets[0]
            elif pos == 'table':
                node = t.from_table
            elif pos == 'alias':
                node = t.targets[0].alias
        except Exception as e:
            return None, out
        return node, out

    def run_str(self, res, d, m, q, body, pos):
        lit = q + body + q
        tt = 'QUOTE_STRING' if q == "'" else 'DQUOTE_STRING'
        text = f'select {lit}' if pos == 'select' else f'select x from t where c = {lit}'
        try:
            toks = m.lex_types(text)
        except parsing.LexError:
            res.count('not_one_literal')
            return res
        want = ['SELECT', tt] if pos == 'select' else ['SELECT', 'ID', 'FROM', 'ID', 'WHERE', 'ID', 'EQUALS', tt]
        if toks != want:
            res.count('not_one_literal')
            return res
        us = units(body, q, self.bs_unit[d][q])
        if us is None:
            # the lexer accepts as one literal something my scanner does not: judge with a permissive reading (body itself)
            res.count('lexer_more_permissive_than_scanner')
            exp = {body}
            us = None
        else:
            exp = denotations(us, q)
        node, out = self._parse_value(res, d, text, pos)
        if node is None:
            res.count('literal_not_accepted_by_parser_' + out.kind)
            return res
        res.count('judged')
        if q == '"' and pos == 'select' and isinstance(node, A.Identifier):
            got = node.parts[0] if len(node.parts) == 1 else None
            res.count('dquote_as_identifier')
            kindname = 'dquote-identifier'
            if got is None:
                got_parts = [str(p) for p in node.parts]
                if ident_parts(next(iter(exp))) != got_parts and [next(iter(exp))] != got_parts:
                    pass
                # a double-quoted name with a dot inside is split at the dot: judged under identifier rule below
                if got_parts != [next(iter(exp))]:
                    res.violation(f'{d}|decode|dquote-identifier|split-at-dot-inside-quotes', f'{text!r}: parts {got_parts!r}, denoted name {sorted(exp)!r}')
                return res
        elif isinstance(node, A.Constant):
            got = node.value
            kindname = 'single' if q == "'" else 'double'
        else:
            res.count('other_node_' + type(node).__name__)
            return res
        res.key((d, q, got))
        if got not in exp:
            pat = unit_pattern(us, q) if us is not None else 'dangling-backslash-before-closing-quote'
            res.violation(f'{d}|decode|{kindname}|{pat}', f'{text!r}: value {got!r}, denoted {sorted(exp)!r}')
        return res

    def run_num(self, res, d, m, q, num, pos):
        text = {'select': f'select {num}', 'where': f'select x from t where c = {num}', 'neg': f'select -{num}', 'limit': f'select x from t limit {num}'}[pos]
        try:
            toks = m.lex_types(f'select {num}')
        except parsing.LexError:
            return res
        if toks not in (['SELECT', 'INTEGER'], ['SELECT', 'FLOAT']):
            res.count('not_one_number')
            return res
        isint = toks[1] == 'INTEGER'
        node, out = self._parse_value(res, d, text, pos)
        if node is None:
            res.count('number_not_accepted_' + out.kind)
            return res
        if not isinstance(node, A.Constant):
            res.count('other_node_' + type(node).__name__)
            if pos == 'neg' and isinstance(node, A.UnaryOperation):
                node = node.args[0]
                exp = int(num) if isint else float(num)
            else:
                return res
        else:
            exp = int(num) if isint else float(num)
            if pos == 'neg':
                exp = -exp
        res.count('judged')
        res.key((d, 'num', repr(node.value)))
        if type(node.value) is bool or node.value != exp or (isint and not isinstance(node.value, int)):
            res.violation(f'{d}|decode|number|{"int" if isint else "float"}|{pos}', f'{text!r}: value {node.value!r}, denoted {exp!r}')
        return res

    def run_ident(self, res, d, m, q, path, pos):
        text = {'column': f'select {path} from t', 'table': f'select x from {path}', 'alias': f'select x as {path} from t'}[pos]
        try:
            toks = m.lex_types(path)
        except parsing.LexError:
            res.count('ident_not_lexable')
            return res
        toks = ['ID' if t == 'DQUOTE_STRING' else t for t in toks]
        if not all(t in ('ID', 'DOT') for t in toks) or toks[0] != 'ID' or toks[-1] != 'ID' or toks.count('ID') != toks.count('DOT') + 1:
            res.count('not_a_plain_path')   # e.g. a keyword, or 1a lexed as number+id
            return res
        exp = ident_parts(path)
        if len(exp) != toks.count('ID'):
            res.count('not_a_plain_path')
            return res
        node, out = self._parse_value(res, d, text, pos)
        if node is None:
            res.count('ident_not_accepted_' + out.kind)
            return res
        if not isinstance(node, A.Identifier):
            res.count('other_node_' + type(node).__name__)
            return res
        got = [str(p) for p in node.parts]
        res.count('judged')
        res.key((d, 'id', tuple(got)))
        if got != exp:
            cls = 'dot-inside-quotes' if any('.' in p for p in exp) else 'case' if [g.lower() for g in got] == [e.lower() for e in exp] else 'other'
            res.violation(f'{d}|decode|identifier|{cls}|{pos}', f'{text!r}: parts {got!r}, denoted {exp!r}')
        return res

    # ---------------------------------------------------------------- encode
    def run_enc_const(self, res, d, m, q, v, pos):
        node = A.Constant(v)
        try:
            s = node.to_string()
        except Exception as e:
            res.violation(f'{d}|encode|const|print-crash|{exc_sig(e)}', f'Constant({v!r}).to_string() raised {e!r}')
            return res
        res.count('judged')
        res.key((d, 'enc', s))
        cls = val_class(v)
        try:
            toks = m.lex_types('select ' + s)
        except parsing.LexError:
            toks = None
        if toks != ['SELECT', 'QUOTE_STRING']:
            res.violation(f'{d}|encode|const|not-one-literal|{cls}', f'Constant({v!r}) prints {s!r}, which lexes as {toks!r}')
            return res
        body = s[1:-1]
        us = units(body, "'", self.bs_unit[d]["'"])
        if us is None or v not in denotations(us, "'"):
            res.violation(f'{d}|encode|const|denotes-other-value|{cls}', f'Constant({v!r}) prints {s!r}, which denotes {sorted(denotations(us, chr(39))) if us else None!r}')
            return res
        out = parsing.outcome('select ' + s, d)
        if out.kind != 'ok' or not isinstance(out.value.targets[0], A.Constant) or out.value.targets[0].value != v:
            got = out.value.targets[0].value if out.kind == 'ok' and isinstance(out.value.targets[0], A.Constant) else out.kind
            res.violation(f'{d}|encode|const|reparse-other-value|{cls}', f'Constant({v!r}) prints {s!r}, re-parsed value {got!r}')
        return res

    def run_enc_num(self, res, d, m, q, v, pos):
        s = (A.NullConstant() if v is None else A.Constant(v)).to_string()
        res.count('judged')
        res.key((d, 'encnum', s))
        out = parsing.outcome('select ' + s, d)
        ok = out.kind == 'ok'
        if ok:
            n = out.value.targets[0]
            if v is None:
                ok = isinstance(n, A.NullConstant)
            else:
                if isinstance(n, A.UnaryOperation) and n.op == '-' and isinstance(n.args[0], A.Constant) and not isinstance(v, bool) and v < 0:
                    ok = n.args[0].value == -v and type(n.args[0].value) is type(v)   # "-3" as an expression denotes the same value
                else:
                    ok = isinstance(n, A.Constant) and n.value == v and type(n.value) is type(v)
        if not ok:
            res.violation(f'{d}|encode|number|{type(v).__name__}', f'Constant({v!r}) prints {s!r}; re-parse gives {str(out.value.targets[0].to_tree()) if out.kind == "ok" else out.kind}')
        return res

    def run_enc_ident(self, res, d, m, q, parts, pos):
        try:
            node = A.Identifier(parts=list(parts))
            s = node.to_string()
        except Exception as e:
            if '' in parts:
                res.count('empty_part_rejected')
                return res
            res.violation(f'{d}|encode|ident|print-crash|{exc_sig(e)}', f'Identifier(parts={parts!r}) raised {e!r}')
            return res
        res.count('judged')
        res.key((d, 'encid', s))
        cls = '+'.join(sorted({part_class(p) for p in parts}))
        try:
            toks = m.lex_types(s)
        except parsing.LexError:
            toks = None
        good = toks is not None and all(t in ('ID', 'DOT') for t in toks) and toks.count('ID') == len(parts) == toks.count('DOT') + 1
        if not good:
            res.violation(f'{d}|encode|ident|not-a-path|{cls}', f'Identifier(parts={parts!r}) prints {s!r}, which lexes as {toks!r}')
            return res
        if ident_parts(s) != list(parts):
            res.violation(f'{d}|encode|ident|denotes-other-parts|{cls}', f'Identifier(parts={parts!r}) prints {s!r}, denoting {ident_parts(s)!r}')
            return res
        out = parsing.outcome(f'select {s} from t', d)
        if out.kind != 'ok' or not isinstance(out.value.targets[0], A.Identifier) or [str(p) for p in out.value.targets[0].parts] != list(parts):
            res.violation(f'{d}|encode|ident|reparse-other-parts|{cls}', f'Identifier(parts={parts!r}) prints {s!r}; re-parse: {out.value.targets[0].to_tree() if out.kind == "ok" else str(out.exc)[:80]}')
        return res

    def run_enc_ident_seq(self, res, d, m, q, names, pos):
        """print one name, then another one that some normalisation (upper / lower / casefold) maps onto it: the second must still be right"""
        try:
            A.Identifier(parts=[names[0]]).to_string()
        except Exception:
            pass
        return self.run_enc_ident(res, d, m, q, ['t', names[1]], pos)

    def run_enc_var(self, res, d, m, q, v, sysv):
        s = A.Variable(v, is_system_var=sysv).to_string()
        res.count('judged')
        res.key((d, 'encvar', s))
        out = parsing.outcome('select ' + s, d)
        ok = out.kind == 'ok' and isinstance(out.value.targets[0], A.Variable) and out.value.targets[0].value == v and out.value.targets[0].is_system_var == sysv
        if not ok:
            cls = 'plain' if v.replace('.', '').replace('_', '').replace('$', '').isalpha() else 'needs-quoting'
            res.violation(f'{d}|encode|variable|{cls}', f'Variable({v!r}, is_system_var={sysv}) prints {s!r}; re-parse: {out.value.targets[0].to_tree() if out.kind == "ok" else out.kind}')
        return res

    def coverage(self, agg):
        return {'exhaustive': True, 'alphabet': ALPHA, 'max_body_length': 4 if self.tier == 'thorough' else 3,
                'backslash_is_unit': self.bs_unit,
                'rule': 'all literal bodies up to the length bound in both quote styles x 2 positions, numbers x 4 positions, identifier paths of 1-3 parts '
                        'over 16 part spellings x 3 positions, and the encode direction for the same value space; distinct_nontrivial = distinct '
                        '(dialect, decoded value / printed text)'}

    def describe_case(self, case):
        d, kind, q, payload, pos = case
        return {'dialect': d, 'kind': kind, 'quote': q, 'payload': payload, 'position': pos}


def val_class(v):
    cl = set()
    for c in v:
        if c == "'":
            cl.add('squote')
        elif c == '"':
            cl.add('dquote')
        elif c == '\\':
            cl.add('backslash')
    if v.endswith('\\'):
        cl.add('trailing-backslash')
    return '+'.join(sorted(cl)) or 'plain'


def part_class(p):
    import re
    if re.fullmatch(r'[a-zA-Z_][a-zA-Z_0-9]*', p):
        from mindsdb_sql.parser.ast.select.identifier import get_reserved_words
        return 'word'
    if '`' in p:
        return 'backquote-inside'
    if '.' in p:
        return 'dot-inside'
    return 'needs-quoting'

"""C07 - constants render as inert, exact literals in every output path.

All strings of length <= L over a collision alphabet (so that --, /*, %s, :x, backslash-quote all
occur) plus numbers / booleans / NULL / dates, in 6 tree positions, rendered by to_string() and by
SqlalchemyRender for mysql, postgresql, sqlite, mssql, oracle.  Oracle: a per-target lexical scanner
written from the target's documented rules; the rendering must have the same token skeleton as the
rendering of the benign value 'x', and the literal in the value's place must denote the value.  The
sqlite rendering is additionally read back by executing SELECT <literal> in sqlite.
"""
import datetime as dt
import itertools
import sqlite3

from mindsdb_sql.parser import ast as A
from mindsdb_sql.render.sqlalchemy_render import SqlalchemyRender

from vf.runner import Check, Result, exc_sig

ALPHA = ['a', "'", '"', '\\', '%', ':', ';', '-', '*', '/', '\n', '`', 'é', ' ', 's', 'x', '\u00a0', '\t', '$', '{', '?']
TARGETS = ['to_string', 'mysql', 'postgresql', 'sqlite', 'mssql', 'oracle']
BACKSLASH_ESCAPES = {'to_string': True, 'mysql': True, 'postgresql': False, 'sqlite': False, 'mssql': False, 'oracle': False}
MYSQL_ESC = {'n': '\n', 't': '\t', 'r': '\r', '0': '\0', 'b': '\b', 'Z': '\x1a', '\\': '\\', "'": "'", '"': '"', '%': '\\%', '_': '\\_'}
POSITIONS = ['select_alias', 'select', 'where', 'in_list', 'insert', 'insert_raw', 'update']


def build(pos, v):
    c = lambda: (A.NullConstant() if v is None else A.Constant(v))
    t = A.Identifier('t')
    if pos == 'select_alias':
        return A.Select(targets=[A.Constant(v, alias=A.Identifier('k')) if v is not None else A.NullConstant(alias=A.Identifier('k'))])
    if pos == 'select':
        return A.Select(targets=[c()])
    if pos == 'where':
        return A.Select(targets=[A.Identifier('a')], from_table=t, where=A.BinaryOperation('=', args=[A.Identifier('c'), c()]))
    if pos == 'in_list':
        return A.Select(targets=[A.Identifier('a')], from_table=t,
                        where=A.BinaryOperation('in', args=[A.Identifier('c'), A.Tuple(items=[c(), A.Constant('zz')])]))
    if pos == 'insert':
        return A.Insert(table=t, columns=[A.Identifier('a'), A.Identifier('b')], values=[[c(), A.Constant(7)]])
    if pos == 'insert_raw':
        return A.Insert(table=t, columns=[A.Identifier('a'), A.Identifier('b')], values=[[v, 7]])
    if pos == 'update':
        return A.Update(table=t, update_columns={'a': c()}, where=A.BinaryOperation('=', args=[A.Identifier('b'), A.Constant(7)]))
    raise ValueError(pos)


# values that are equal (or hash-equal) in Python but are different SQL constants, plus a few strings
TWIN_VALUES = [0, 1, 2, True, False, 0.0, 1.0, 2.0, -1, -1.0, 1.5, '1', '0', '1.0', 'True', 'a', '', None]
PAIR_POSITIONS = ['select2', 'where2', 'in2', 'insert2', 'update2', 'insert_rows2', 'insert_rows2_same_column']


def build2(pos, v1, v2):
    c = lambda v: (A.NullConstant() if v is None else A.Constant(v))
    t = A.Identifier('t')
    if pos == 'select2':
        return A.Select(targets=[A.Constant(v1, alias=A.Identifier('k1')) if v1 is not None else A.NullConstant(alias=A.Identifier('k1')),
                                 A.Constant(v2, alias=A.Identifier('k2')) if v2 is not None else A.NullConstant(alias=A.Identifier('k2'))])
    if pos == 'where2':
        return A.Select(targets=[A.Identifier('a')], from_table=t,
                        where=A.BinaryOperation('and', args=[A.BinaryOperation('=', args=[A.Identifier('c'), c(v1)]), A.BinaryOperation('=', args=[A.Identifier('d'), c(v2)])]))
    if pos == 'in2':
        return A.Select(targets=[A.Identifier('a')], from_table=t, where=A.BinaryOperation('in', args=[A.Identifier('c'), A.Tuple(items=[c(v1), c(v2)])]))
    if pos == 'insert2':
        return A.Insert(table=t, columns=[A.Identifier('a'), A.Identifier('b')], values=[[c(v1), c(v2)]])
    if pos == 'insert_rows2':
        return A.Insert(table=t, columns=[A.Identifier('a'), A.Identifier('b')], values=[[c(v1), A.Constant('zz')], [A.Constant('zz'), c(v2)]])
    if pos == 'insert_rows2_same_column':
        return A.Insert(table=t, columns=[A.Identifier('a')], values=[[c(v1)], [c(v2)]])
    if pos == 'update2':
        return A.Update(table=t, update_columns={'a': c(v1)}, where=A.BinaryOperation('=', args=[A.Identifier('b'), c(v2)]))
    raise ValueError(pos)


def value_tokens(toks):
    """the tokens of a scanned text that stand for constants: strings, numbers (with their sign) and the words TRUE / FALSE / NULL"""
    out = []
    for i, (k, raw, _v) in enumerate(toks):
        if k == 'S':
            out.append(raw)
        elif k == 'N':
            neg = i > 0 and toks[i - 1][:2] == ('P', '-') and (i < 2 or toks[i - 2][0] in ('P', 'W') and toks[i - 2][1] not in (')',))
            out.append(('-' if neg else '') + raw)
        elif k == 'W' and raw in ('TRUE', 'FALSE', 'NULL'):
            out.append(raw)
    return out


def scan(text, target):
    """lexical scan by the target's rules -> list of (kind, raw, value) or None if a literal is unterminated.
    kinds: S string literal, Q quoted identifier, N number, W word, P punctuation"""
    bs = BACKSLASH_ESCAPES[target]
    out = []
    i, n = 0, len(text)
    while i < n:
        c = text[i]
        if c.isspace():
            i += 1
            continue
        if text.startswith('--', i):
            j = text.find('\n', i)
            j = n if j < 0 else j
            out.append(('C', text[i:j], None))
            i = j
            continue
        if text.startswith('/*', i):
            j = text.find('*/', i + 2)
            if j < 0:
                return None
            out.append(('C', text[i:j + 2], None))
            i = j + 2
            continue
        if c == "'" or (c == '"' and target in ('mysql', 'to_string')):
            q = c
            j = i + 1
            val = []
            while True:
                if j >= n:
                    return None
                ch = text[j]
                if bs and ch == '\\':
                    if j + 1 >= n:
                        return None
                    nx = text[j + 1]
                    if target == 'mysql':
                        val.append(MYSQL_ESC.get(nx, nx))
                    else:
                        val.append(('lib', nx))
                    j += 2
                elif ch == q:
                    if j + 1 < n and text[j + 1] == q and (q == "'" or target == 'mysql'):
                        val.append(q)
                        j += 2
                    else:
                        break
                else:
                    val.append(ch)
                    j += 1
            out.append(('S', text[i:j + 1], val))
            i = j + 1
            continue
        if c == '"' or c == '`' or (c == '[' and target == 'mssql'):
            close = {'"': '"', '`': '`', '[': ']'}[c]
            j = i + 1
            while True:
                if j >= n:
                    return None
                if text[j] == close:
                    if j + 1 < n and text[j + 1] == close:
                        j += 2
                        continue
                    break
                j += 1
            out.append(('Q', text[i:j + 1], None))
            i = j + 1
            continue
        if c.isdigit() or (c == '.' and i + 1 < n and text[i + 1].isdigit()):
            j = i
            while j < n and (text[j].isalnum() or text[j] in '.+-' and text[j - 1] in 'eE' or text[j] == '.'):
                j += 1
            out.append(('N', text[i:j], None))
            i = j
            continue
        if c.isalpha() or c == '_' or c == '@' or c == '$':
            j = i
            while j < n and (text[j].isalnum() or text[j] in '_$@'):
                j += 1
            out.append(('W', text[i:j].upper(), None))
            i = j
            continue
        out.append(('P', c, None))
        i += 1
    return out


def lib_values(val):
    """acceptable readings of a to_string literal (the library's own lexer rules, as in C04)"""
    alts = []
    for u in val:
        if isinstance(u, tuple):
            x = u[1]
            if x in ("'", '"'):
                alts.append([x])
            elif x == '\\':
                alts.append(['\\', '\\\\'])
            else:
                alts.append(['\\' + x, x, {'n': '\n', 't': '\t'}.get(x, x)])
        else:
            alts.append([u])
    out = set()
    for combo in itertools.product(*alts):
        out.add(''.join(combo))
        if len(out) > 64:
            break
    return out


def skeleton(toks, pos):
    sk = []
    prev = None
    for k, raw, v in toks:
        if k == 'S':
            sk.append('S')
        elif k == 'Q':
            sk.append('I')
        elif k == 'N':
            sk.append('N')
        elif k == 'W':
            if prev == ('W', 'AS'):
                # the word after AS is a label, whatever it spells (also `as`): one identifier token, and not itself an AS keyword
                sk.append('I')
                prev = ('I', raw)
                continue
            sk.append(raw)
        elif k == 'C':
            sk.append('COMMENT')
        else:
            sk.append(raw)
        prev = (k, raw)
    return sk


def charclass(v):
    if not isinstance(v, str):
        return type(v).__name__
    cl = []
    if '\\' in v:
        cl.append('backslash')
    if "'" in v:
        cl.append('squote')
    if '"' in v:
        cl.append('dquote')
    if '\n' in v:
        cl.append('newline')
    return '+'.join(cl) or 'plain'


class CHECK(Check):
    pid = 'C07'
    level = 'exploration'
    assumptions = ['target lexical rules: mysql = doubled quotes and backslash escapes (default sql_mode); postgresql (standard_conforming_strings), '
                   'sqlite, mssql, oracle = doubled quotes only; to_string = the library\'s own lexer rules',
                   'a value-derived column label (constant without alias in the select list) is compared as one identifier token']

    def setup(self, tier, seed):
        self.tier, self.seed = tier, seed
        self.renders = None
        self.con = None

    def cases(self):
        L = 4 if self.tier == 'thorough' else 3
        alpha = ALPHA if self.tier == 'thorough' else ALPHA[:13]
        vals = []
        for n in range(0, L + 1):
            a = alpha if n <= 3 else ALPHA[:8]
            for tup in itertools.product(a, repeat=n):
                vals.append(''.join(tup))
        vals += ['run `ls -l` first', 'a\u00a0b', '{x}', '${x}', '?', '??', 'a\tb', '\u2028', '[x]', '#x', '@x', '@@x', 'NULL', 'true', '\x00', 'a\rb']
        vals += ["\\' OR 1=1 -- ", "'; drop table t; --", 'it\'s', '%s', ':x', '%(x)s', '\\\\', "a\\'b", 'x' * 300]
        others = [0, 1, -5, 10 ** 20, 1.5, -0.25, 1e-7, 1e-05, -2.5e-07, 1e+22, 1 / 81000, 123456789.125, True, False, None, dt.date(2020, 1, 2), dt.datetime(2020, 1, 2, 3, 4, 5)]
        # temporal values: boundary product of date x time-of-day x microsecond (every sub-second digit position populated / empty)
        dates = [(1, 1, 1), (1970, 1, 1), (2020, 2, 29), (9999, 12, 31)]
        for d in dates:
            others.append(dt.date(*d))
            for hms in [(0, 0, 0), (3, 4, 5), (23, 59, 59)]:
                for us in [0, 1, 10, 100, 1000, 120000, 123456, 500000, 999999]:
                    if self.tier == 'thorough' or d == (2020, 2, 29) or (hms == (3, 4, 5) and us in (0, 123456)):
                        others.append(dt.datetime(*d, *hms, us))
        # numbers: mantissa x decimal exponent x sign, and integers around the machine-word boundaries
        for m in [1.0, 1.5, 0.1, 1 / 3, 123456789.125]:
            for e in ([-300, -10, -7, -5, -4, -1, 0, 5, 15, 16, 17, 22, 300] if self.tier == 'thorough' else [-7, -5, -4, 0, 15, 16, 22]):
                for sgn in (1, -1):
                    x = sgn * m * 10.0 ** e
                    if x == x and x not in (float('inf'), float('-inf')):
                        others.append(x)
        for k in [7, 15, 16, 31, 32, 53, 63, 64, 100]:
            others += [2 ** k - 1, 2 ** k, -(2 ** k), -(2 ** k) - 1]
        seen_o, uniq = set(), []
        for v in others:
            key = (type(v).__name__, repr(v))
            if key not in seen_o:
                seen_o.add(key)
                uniq.append(v)
        others = uniq
        out = []
        for v in vals:
            for pos in POSITIONS:
                out.append((pos, v))
        for v in others:
            for pos in POSITIONS:
                out.append((pos, v))
        # two constants in one statement, and two statements on one renderer object (all ordered pairs of the twin values)
        for i, j in itertools.product(range(len(TWIN_VALUES)), repeat=2):
            for pos in PAIR_POSITIONS:
                out.append((pos, (i, j)))
            out.append(('sequence', (i, j)))
        return out

    def render(self, target, tree):
        if target == 'to_string':
            return str(tree)
        return self.renders[target].get_string(tree, with_failback=False)

    def literal_alone(self, target, v):
        """the constant tokens of `SELECT <v> AS k1` rendered by a renderer object that has rendered nothing else"""
        tree = build2('select2', v, 'zz')
        text = str(tree) if target == 'to_string' else SqlalchemyRender(target).get_string(tree, with_failback=False)
        toks = scan(text, target)
        vt = value_tokens(toks) if toks is not None else None
        return vt[:-1] if vt else vt

    def run_pair(self, res, pos, ij):
        """the literal standing for a constant must not depend on the other constants of the statement, nor on what the same
        renderer object rendered before: it equals the literal the constant gets when rendered alone by a new renderer"""
        v1, v2 = TWIN_VALUES[ij[0]], TWIN_VALUES[ij[1]]
        for target in TARGETS:
            try:
                a1, a2 = self.literal_alone(target, v1), self.literal_alone(target, v2)
            except Exception:
                res.count('benign_render_unsupported')
                continue
            if a1 is None or a2 is None:
                continue
            try:
                if pos == 'sequence':
                    if target == 'to_string':
                        continue
                    r = SqlalchemyRender(target)
                    r.get_string(build2('select2', v1, 'zz'), with_failback=False)
                    text = r.get_string(build2('select2', v2, 'zz'), with_failback=False)
                    want = a2 + ["'zz'"]
                else:
                    tree = build2(pos, v1, v2)
                    text = str(tree) if target == 'to_string' else SqlalchemyRender(target).get_string(tree, with_failback=False)
                    zz = ["'zz'"]
                    want = a1 + zz + zz + a2 if pos == 'insert_rows2' else a1 + a2
            except Exception as e:
                res.count('pair_render_unsupported')
                continue
            res.count('pair_renders')
            res.key((target, pos, text))
            toks = scan(text, target)
            got = value_tokens(toks) if toks is not None else None
            if got != want:
                kinds = '+'.join(sorted({type(v1).__name__, type(v2).__name__}))
                what = 'after-earlier-statement' if pos == 'sequence' else 'next-to-other-constant'
                res.violation(f'{target}|constant-literal-depends-on-context|{what}|{kinds}',
                              f'constants {v1!r}, {v2!r} ({pos}): rendered {text!r} with constant tokens {got!r}; rendered alone they are {a1!r} and {a2!r}')
        return res

    def run(self, case):
        res = Result()
        pos, v = case
        if pos in PAIR_POSITIONS or pos == 'sequence':
            return self.run_pair(res, pos, v)
        if self.renders is None:
            self.renders = {n: SqlalchemyRender(n) for n in TARGETS if n != 'to_string'}
            self.con = sqlite3.connect(':memory:')
        cls = 'backslash' if isinstance(v, str) and '\\' in v else charclass(v)
        pos_sig = 'raw-insert-value' if pos == 'insert_raw' else 'constant'
        for target in TARGETS:
            if pos == 'insert_raw' and isinstance(v, (dt.date, dt.datetime)) and target != 'to_string':
                continue
            benign = 'x' if isinstance(v, str) or v is None or isinstance(v, (dt.date, dt.datetime)) else 1
            try:
                base = self.render(target, build(pos, benign))
            except Exception as e:
                res.count('benign_render_unsupported')
                continue
            try:
                text = self.render(target, build(pos, v))
            except Exception as e:
                res.violation(f'{target}|{pos_sig}|render-raises|{exc_sig(e)}', f'value {v!r}: {type(e).__name__}: {str(e)[:100]}')
                continue
            res.count('renders')
            res.key((target, pos, text))
            tb = scan(base, target)
            tv = scan(text, target)
            if tb is None:
                res.violation(f'oracle|benign-rendering-not-scannable|{target}', base)
                continue
            if tv is None:
                res.violation(f'{target}|{pos_sig}|literal-not-terminated|{cls}', f'value {v!r} renders as {text!r}: a literal or quoted name is not terminated under {target} rules')
                continue
            sb, sv = skeleton(tb, pos), skeleton(tv, pos)
            # locate the literal standing for the value: first position where the benign rendering has its S/N token
            if isinstance(v, str) or isinstance(v, (dt.date, dt.datetime)):
                want_kind = 'S'
            elif v is None or isinstance(v, bool):
                want_kind = None
            else:
                want_kind = 'N'
            if isinstance(v, str) or isinstance(v, (dt.date, dt.datetime)) or (type(v) in (int, float) and v >= 0):
                if sb != sv:
                    res.violation(f'{target}|{pos_sig}|statement-structure-changed|{cls}', f'value {v!r} renders as {text!r}; token skeleton {sv} differs from the benign {sb} ({base!r})')
                    continue
                idx = sb.index('S') if want_kind == 'S' else sb.index('N')
                k, raw, val = tv[idx]
                if want_kind == 'S':
                    expect = v if isinstance(v, str) else str(v)
                    if target == 'to_string':
                        ok = expect in lib_values(val)
                        shown = sorted(lib_values(val))[:4]
                    else:
                        got = ''.join(val)
                        ok = got == expect
                        shown = got
                    if not ok:
                        res.violation(f'{target}|{pos_sig}|literal-denotes-other-value|{cls}', f'value {v!r} renders as {text!r}; the literal {raw!r} denotes {shown!r} under {target} rules')
                        continue
                    if target == 'to_string' and isinstance(v, str):
                        # read the literal back with the library's own (live) lexer and parser
                        try:
                            from mindsdb_sql import parse_sql
                            node = parse_sql('select ' + raw, 'mindsdb').targets[0]
                            back = node.value if isinstance(node, A.Constant) else None
                        except Exception:
                            back = None
                        res.count('library_readbacks')
                        if back != expect:
                            res.violation(f'{target}|{pos_sig}|library-lexer-reads-back-other-value|{cls}', f'value {v!r} prints as {raw!r}, which parse_sql reads back as {back!r}')
                    if target == 'sqlite' and '\x00' not in expect:
                        try:
                            back = self.con.execute('select ' + raw).fetchone()[0]
                            res.count('sqlite_readbacks')
                            if back != expect:
                                res.violation(f'{target}|{pos_sig}|sqlite-reads-back-other-value|{cls}', f'{raw!r} -> {back!r}, expected {expect!r}')
                        except sqlite3.Error as e:
                            res.violation(f'{target}|{pos_sig}|sqlite-rejects-literal|{cls}', f'{raw!r}: {e}')
                else:
                    try:
                        num = float(raw)
                    except ValueError:
                        num = None
                    if num is None or num != float(v):
                        res.violation(f'{target}|{pos_sig}|number-denotes-other-value|{type(v).__name__}', f'value {v!r} renders as {text!r}')
                    elif target == 'to_string':
                        # the library's own lexers have no exponent notation: read the number back with them
                        try:
                            from mindsdb_sql import parse_sql
                            node = parse_sql('select ' + raw, 'mindsdb').targets[0]
                            back = node.value if isinstance(node, A.Constant) else None
                        except Exception:
                            back = None
                        if back != v or type(back) is not type(v):
                            res.violation(f'{target}|{pos_sig}|library-lexer-reads-back-other-value|{type(v).__name__}', f'value {v!r} prints as {raw!r}, which parse_sql reads back as {back!r}')
            else:
                # negative numbers, booleans, NULL: structure may legitimately differ by a sign / keyword; check by value word
                flat = ' '.join(raw for k, raw, _ in tv)
                if v is None:
                    ok = 'NULL' in [raw for k, raw, _ in tv] or 'NONE' in [raw for k, raw, _ in tv] and False
                elif isinstance(v, bool):
                    ok = any(raw in (('TRUE', '1') if v else ('FALSE', '0')) for k, raw, _ in tv)
                else:
                    nums = [raw for k, raw, _ in tv if k == 'N']
                    ok = any(abs(float(r)) == abs(float(v)) for r in nums if r.replace('.', '').replace('e', '').replace('-', '').replace('E', '').isdigit() or True) and '-' in flat
                if not ok:
                    res.violation(f'{target}|{pos_sig}|value-not-rendered|{type(v).__name__}', f'value {v!r} renders as {text!r}')
        return res

    def coverage(self, agg):
        return {'exhaustive': True, 'alphabet': ALPHA if self.tier == 'thorough' else ALPHA[:13], 'positions': POSITIONS, 'targets': TARGETS,
                'rule': 'all strings up to the length bound + numbers/booleans/NULL/dates x 7 positions x 6 renderings; all ordered pairs of 18 twin values (0 / False / 0.0, 1 / True / 1.0 / "1" ...) as two constants of one statement in 5 positions and as two statements on one renderer object; distinct_nontrivial = distinct '
                        '(target, position, rendered text)'}

    def describe_case(self, case):
        if case[0] in PAIR_POSITIONS or case[0] == 'sequence':
            return {'position': case[0], 'values': [repr(TWIN_VALUES[case[1][0]]), repr(TWIN_VALUES[case[1][1]])]}
        return {'position': case[0], 'value': case[1] if not isinstance(case[1], (dt.date, dt.datetime)) else str(case[1])}

    def encode_case(self, case):
        v = case[1]
        if isinstance(v, dt.datetime):
            return [case[0], {'datetime': v.isoformat()}]
        if isinstance(v, dt.date):
            return [case[0], {'date': v.isoformat()}]
        return [case[0], v]

    def decode_case(self, c):
        v = c[1]
        if c[0] in PAIR_POSITIONS or c[0] == 'sequence':
            return (c[0], tuple(v))
        if isinstance(v, dict) and 'datetime' in v:
            v = dt.datetime.fromisoformat(v['datetime'])
        elif isinstance(v, dict) and 'date' in v:
            v = dt.date.fromisoformat(v['date'])
        return (c[0], v)

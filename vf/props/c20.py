"""C20 - calls are isolated: same input, same result, whatever ran before or alongside.

Three bounded explorations of the real code:
 * schedules: for each pair (triple in thorough) of colliding API calls run by real threads under the
   cooperative scheduler of vf.sched, ALL schedules with <= b preemptions (function-boundary points; LINE
   points in four named functions for b = 1); every thread's observation must equal the sequential
   reference of the same call;
 * histories: breadth-first search over call sequences (depth 3, thorough 4) on one process, state =
   fingerprint of the mutable globals of mindsdb_sql.* / sly.* and of the caller-owned catalog and
   renderer objects; every call's observation must equal its fresh reference from every reached state;
 * hash seeds: the corpus is run in fresh interpreters under several PYTHONHASHSEED values and the
   observations must coincide (a finite sweep, not exhaustive - stated in the evidence).
"""
import copy
import hashlib
import itertools
import json
import os
import subprocess
import sys

from vf import reflect
from vf.runner import Check, Result, exc_sig, ROOT, REPO

CATALOG_SHARED = None


def shared_catalog():
    return dict(integrations=['int1', 'int2'],
                predictor_metadata=[dict(name='pred', integration_name='mindsdb'), dict(name='tp', integration_name='mindsdb', timeseries=True,
                                                                                       order_by_column='ts', group_by_columns=['g'], window=2)],
                default_namespace='mindsdb')


def obs_parse(sql, dialect):
    from mindsdb_sql import parse_sql
    try:
        t = parse_sql(sql, dialect)
        return ('tree', t.to_tree(), str(t))
    except Exception as e:
        return ('exc', type(e).__name__, str(e))


def obs_plan(sql, catalog):
    from mindsdb_sql import parse_sql
    from mindsdb_sql.planner import plan_query
    try:
        p = plan_query(parse_sql(sql), **catalog)
        return ('plan', repr(p.steps))
    except Exception as e:
        return ('exc', type(e).__name__, str(e))


def obs_render(sql, render):
    from mindsdb_sql import parse_sql
    try:
        return ('sql', render.get_string(parse_sql(sql), with_failback=True))
    except Exception as e:
        return ('exc', type(e).__name__, str(e))


def obs_print(sql):
    from mindsdb_sql import parse_sql
    try:
        return ('str', str(parse_sql(sql)))
    except Exception as e:
        return ('exc', type(e).__name__, str(e))


# operations: name -> (kind, args).  The corpus is chosen so that calls collide: same dialect, same lazily filled globals,
# the same caller-owned catalog / renderer objects, two versions of one model.
OPS = collections = None
import collections as _c
OPS = _c.OrderedDict([
    ('parse_mdb_1', ('parse', 'select a, b from t1 where c = 1 and d in (1, 2) order by a limit 2', 'mindsdb')),
    ('parse_mdb_2', ('parse', "select x.* from db.u as x join v on x.id = v.id where v.`select` = 'q'", 'mindsdb')),
    ('parse_mdb_err', ('parse', 'select from where', 'mindsdb')),
    ('parse_mdb_err2', ('parse', 'create view v (select * from t) x', 'mindsdb')),
    ('parse_mdb_err3', ('parse', 'create x', 'mindsdb')),
    ('parse_mdb_err4', ('parse', 'drop x y', 'mindsdb')),
    ('parse_mdb_model', ('parse', "create model m from db (select * from t where a = '1') predict y using engine = 'x'", 'mindsdb')),
    ('parse_mysql', ('parse', 'select @@version, a from t where b > 1 + 2', 'mysql')),
    ('parse_mysql_err', ('parse', 'select a from', 'mysql')),
    ('parse_sqlite', ('parse', 'select a from t group by a having count(*) > 1', 'sqlite')),
    ('print_kw', ('print', 'select `from`, `group by`, t.`order` from `table` as `select`')),
    ('print_2', ('print', "select case when a = 1 then 'x' else 'y' end from t")),
    ('plan_join', ('plan', 'select * from int1.t1 join int2.t2 on t1.id = t2.id where t1.a = 1 limit 3')),
    ('plan_model_v1', ('plan', 'select * from int1.t1 join mindsdb.pred.1 where t1.a = 1')),
    ('plan_model_v2', ('plan', 'select * from int1.t1 join mindsdb.pred.2')),
    ('plan_model_sel', ('plan', 'select * from mindsdb.pred where a = 1')),
    ('plan_model_sel_v1', ('plan', 'select * from mindsdb.pred.1 where a = 1')),
    ('plan_model_sel_v2', ('plan', 'select * from mindsdb.pred.2 where a = 1')),
    ('plan_ts', ('plan', 'select * from int1.tt as t join mindsdb.tp where t.ts > 2')),
    ('plan_err', ('plan', 'select * from nowhere.t join int1.t1')),
    ('render_mysql_1', ('render', 'select a, count(*) from t where b = 1 group by a', 'mysql')),
    ('render_mysql_2', ('render', "select * from t1 left join t2 on t1.id = t2.id where t1.x in (1, 2) or t2.y = 'q'", 'mysql')),
    ('render_pg', ('render', 'select cast(a as int) from t order by a desc nulls last', 'postgresql')),
    ('render_create', ('render', 'create table t (a serial, b int)', 'mysql')),
    ('render_fallback', ('render', 'select cast(a as foo) from t', 'mysql')),
    ('render_pg_fallback', ('render', 'select t1.`select`, t1.`a b` from t1 right join t2 on t1.id = t2.id', 'postgresql')),
    ('render_pg_fallback2', ('render', 'select cast(`group by` as foo) from `table`', 'postgres')),
    # one metadata list without integration_name, used by planners with different predictor namespaces
    ('plan_ns_mindsdb', ('plan_ns', 'select * from int1.t1 join mindsdb.pred', 'mindsdb')),
    ('plan_ns_proj2', ('plan_ns', 'select * from int1.t1 join proj2.pred', 'proj2')),
    # a planning error under a catalog with several projects and no default namespace (messages that list names)
    ('plan_err_unqualified', ('plan3', 'select * from tbl join int1.t1 on tbl.id = t1.id')),
    ('plan_err_unknown_db', ('plan3', 'select * from nowhere.t join projx.u')),
])

PAIRS = [
    ('parse_mdb_1', 'parse_mdb_2'), ('parse_mdb_1', 'parse_mdb_err'), ('parse_mdb_err', 'parse_mdb_err2'), ('parse_mdb_model', 'parse_mdb_2'),
    ('parse_mysql', 'parse_mysql_err'), ('parse_sqlite', 'parse_mdb_1'), ('print_kw', 'print_2'), ('print_kw', 'parse_mdb_2'),
    ('plan_model_v1', 'plan_model_v2'), ('plan_join', 'plan_model_v1'), ('plan_model_sel', 'plan_model_v2'), ('plan_ts', 'plan_model_v1'),
    ('render_mysql_1', 'render_mysql_2'), ('render_mysql_1', 'render_create'), ('render_pg', 'render_mysql_2'), ('parse_mdb_1', 'plan_join'),
    ('render_fallback', 'render_mysql_1'), ('plan_err', 'plan_join'), ('parse_mdb_1', 'parse_mdb_1'), ('plan_model_sel_v1', 'plan_model_sel_v2'),
    ('plan_model_sel_v1', 'plan_ts'),
    ('render_pg_fallback', 'print_kw'), ('render_pg_fallback', 'render_fallback'), ('render_pg_fallback2', 'print_kw'), ('render_pg_fallback', 'plan_join'),
]
TRIPLES = [('parse_mdb_1', 'parse_mdb_2', 'parse_mdb_err'), ('plan_model_v1', 'plan_model_v2', 'plan_join'), ('render_mysql_1', 'render_mysql_2', 'print_kw')]


class Env:
    """caller-owned objects shared by all calls of one process / schedule (as a server would share them)"""

    def __init__(self, names=None):
        from mindsdb_sql.render.sqlalchemy_render import SqlalchemyRender
        self.catalog = shared_catalog()
        self.meta2 = [dict(name='pred'), dict(name='pred2')]
        self.catalog3 = dict(integrations=['int1', 'int2', {'name': 'projA', 'type': 'project'}, {'name': 'projB', 'type': 'project'}, {'name': 'projD', 'type': 'project'}],
                             predictor_metadata=[dict(name='pred', integration_name='projC'), dict(name='p2', integration_name='projE'), dict(name='p3', integration_name='projF')])
        need = {OPS[n][2] for n in (names if names is not None else OPS) if OPS[n][0] == 'render'}
        self.renders = {d: SqlalchemyRender(d) for d in sorted(need)}

    def call(self, name):
        op = OPS[name]
        if op[0] == 'parse':
            return obs_parse(op[1], op[2])
        if op[0] == 'print':
            return obs_print(op[1])
        if op[0] == 'plan':
            return obs_plan(op[1], self.catalog)
        if op[0] == 'plan_ns':
            return obs_plan(op[1], dict(integrations=['int1', 'int2'], predictor_namespace=op[2], predictor_metadata=self.meta2))
        if op[0] == 'plan3':
            return obs_plan(op[1], self.catalog3)
        if op[0] == 'render':
            return obs_render(op[1], self.renders[op[2]])

    def fingerprint(self):
        return reflect.fingerprint((self.catalog, self.meta2, self.catalog3))


def reset_lazy_globals():
    """bring lazily filled process globals back to their import-time value (so that every schedule starts 'cold')"""
    if _SNAP is not None:
        restore_lazy_globals()
        return
    from mindsdb_sql.parser.ast.select import identifier
    identifier.RESERVED_KEYWORDS.clear()
    identifier.RESERVED_KEYWORDS.update({'PERSIST', 'IF', 'EXISTS', 'NULLS', 'FIRST', 'LAST', 'ORDER', 'BY', 'GROUP', 'PARTITION'})


BIG = 3000

_SNAP = None
_MISSING = object()


def snapshot_lazy_globals():
    """import-time values of the simple module globals and class attributes of mindsdb_sql.* / sly.* (None, booleans, numbers, strings and
    small containers): the places where "compute once" code keeps its state.  Taken before any library call."""
    global _SNAP
    snap = []
    simple = (bool, int, float, str)

    def consider(owner, attr, v):
        if v is None or isinstance(v, simple):
            snap.append((owner, attr, 'val', v, None))
        elif isinstance(v, (set, dict, list)) and len(v) < 400:
            snap.append((owner, attr, 'cont', v, copy.copy(v)))

    for name in sorted(sys.modules):
        if not (name == 'mindsdb_sql' or name.startswith('mindsdb_sql.') or name == 'sly' or name.startswith('sly.')):
            continue
        mod = sys.modules[name]
        if mod is None:
            continue
        for k, v in list(vars(mod).items()):
            if k.startswith('__'):
                continue
            if isinstance(v, type):
                if getattr(v, '__module__', None) == name:
                    for ck, cv in list(vars(v).items()):
                        if not ck.startswith('__'):
                            consider(v, ck, cv)
            else:
                consider(mod, k, v)
    _SNAP = snap
    return len(snap)


def restore_lazy_globals():
    """bring every snapshotted global back to its import-time value (so that every schedule / history starts cold)"""
    changed = []
    for owner, attr, kind, v, content in _SNAP or ():
        cur = vars(owner).get(attr, _MISSING)
        if kind == 'val':
            if cur is not v and (cur is _MISSING or type(cur) is not type(v) or cur != v):
                setattr(owner, attr, v)
                changed.append(attr)
        else:
            if cur is not v:
                setattr(owner, attr, v)
                changed.append(attr)
            if len(v) != len(content) or v != content:
                if isinstance(v, list):
                    v[:] = content
                else:
                    v.clear()
                    v.update(content)
                changed.append(attr)
    return changed


def global_state():
    """light fingerprint of every mutable object reachable from the modules mindsdb_sql.* and sly.*
    (module globals, class attributes, function defaults); very large containers are summarised by type and size"""
    out = []
    seen = set()

    def fp(o, depth=0):
        if isinstance(o, reflect.PRIMS):
            return o if not isinstance(o, str) or len(o) < 200 else hash(o)
        if id(o) in seen or depth > 12:
            return ('ref', type(o).__name__)
        if isinstance(o, (list, tuple)):
            if len(o) > BIG:
                return (type(o).__name__, 'big', len(o))
            seen.add(id(o))
            return (type(o).__name__,) + tuple(fp(x, depth + 1) for x in o)
        if isinstance(o, dict):
            if len(o) > BIG:
                return ('dict', 'big', len(o))
            seen.add(id(o))
            return ('dict',) + tuple(sorted(((repr(k), fp(v, depth + 1)) for k, v in o.items()), key=lambda kv: kv[0]))
        if isinstance(o, (set, frozenset)):
            return ('set', len(o), hash(tuple(sorted(map(repr, o)))) if len(o) < BIG else 0)
        if isinstance(o, type) or callable(o):
            return ('callable', getattr(o, '__qualname__', '?'))
        if hasattr(o, '__dict__'):
            mod = type(o).__module__ or ''
            if not (mod.startswith('mindsdb_sql') or mod.startswith('sly')):
                return ('foreign', type(o).__name__)
            seen.add(id(o))
            return (type(o).__name__,) + tuple((k, fp(v, depth + 1)) for k, v in sorted(vars(o).items()))
        return ('other', type(o).__name__)

    for name in sorted(sys.modules):
        if not (name == 'mindsdb_sql' or name.startswith('mindsdb_sql.') or name == 'sly' or name.startswith('sly.')):
            continue
        mod = sys.modules[name]
        if mod is None:
            continue
        for k, v in sorted(vars(mod).items()):
            if k.startswith('__') or isinstance(v, type(sys)):
                continue
            if isinstance(v, type):
                if getattr(v, '__module__', None) != name:
                    continue
                for ck, cv in sorted(vars(v).items()):
                    if ck.startswith('__') or callable(cv) and not isinstance(cv, type):
                        if callable(cv) and hasattr(cv, '__defaults__') and cv.__defaults__:
                            out.append((name, k, ck, 'defaults', fp(cv.__defaults__)))
                        continue
                    out.append((name, k, ck, fp(cv)))
            elif callable(v):
                if getattr(v, '__module__', None) == name and getattr(v, '__defaults__', None):
                    out.append((name, k, 'defaults', fp(v.__defaults__)))
            else:
                out.append((name, k, fp(v)))
    return out


def state_digest():
    return hashlib.blake2b(repr(global_state()).encode(), digest_size=8).hexdigest()


def state_diff(a, b):
    da = {tuple(x[:-1]): x[-1] for x in a}
    db = {tuple(x[:-1]): x[-1] for x in b}
    return sorted(str(k) for k in set(da) | set(db) if da.get(k) != db.get(k))


def _ref_op(name):
    return Env().call(name)


def tojson_back(x):
    """observations travel as JSON from the forked reference processes: lists back to tuples"""
    return tuple(tojson_back(i) for i in x) if isinstance(x, list) else x


def in_child(fn):
    """fn() evaluated in a forked child of this process; the (picklable) result comes back through a pipe"""
    import pickle
    r, w = os.pipe()
    pid = os.fork()
    if pid == 0:
        code = 0
        try:
            os.close(r)
            with os.fdopen(w, 'wb') as fh:
                pickle.dump(fn(), fh)
        except BaseException:
            code = 1
        finally:
            os._exit(code)
    os.close(w)
    with os.fdopen(r, 'rb') as fh:
        data = fh.read()
    os.waitpid(pid, 0)
    if not data:
        raise RuntimeError('child produced no result')
    return pickle.loads(data)


class CHECK(Check):
    pid = 'C20'
    fork_per_case = True     # every case starts from the clean state this process has after setup (imports only)
    level = 'model_checking'
    case_timeout = 1500
    assumptions = ['scheduling points are Python function boundaries of repository code (plus lines of four named functions at bound 1); interleavings inside '
                   'C extensions / SQLAlchemy and between two points are not explored',
                   'hash seeds are a finite sweep (the space is 2**32); thread schedules and call histories are exhaustive within the stated bounds',
                   'every schedule starts with every simple module global / class attribute of mindsdb_sql.* and sly.* (None, numbers, strings, small containers) reset to its import-time value; module imports are warm']

    def setup(self, tier, seed):
        self.tier, self.seed = tier, seed
        # two-step histories over the rich planner corpus: references first, each in a process forked from this still clean one
        from vf import histories
        import mindsdb_sql.planner  # noqa: F401  (warm imports only - nothing is planned in this process before the references exist)
        # import every dialect's lexer / parser / the planner / the renderer, then remember the import-time value of every simple global
        from vf import gsx
        for d in gsx.DIALECTS:
            gsx.load_classes(d)
        import mindsdb_sql.render.sqlalchemy_render  # noqa: F401
        self.nsnap = snapshot_lazy_globals()
        self.hcorpus = histories.corpus(tier)
        self.href = histories.references(self.hcorpus)
        if tier == 'quick':
            keep = histories.select_quick(self.hcorpus, self.href)
            self.hcorpus = [self.hcorpus[i] for i in keep]
            self.href = [self.href[i] for i in keep]
        # texts for the order differential: all one-token insertions / replacements / deletions / truncations at every between-token
        # state (k=1) of each dialect, in the explorer's order (cases of one parser state are adjacent), one text per line
        self.order_texts = {}
        for d in gsx.DIALECTS:
            m = gsx.Model(d)
            f = gsx.Families(m, 1)
            texts = []
            seen_t = set()
            for kind, sent in f.s1():
                if any(t not in m.lexeme for t in sent):
                    continue
                t = m.text_of(sent)
                if t not in seen_t:
                    seen_t.add(t)
                    texts.append(t)
            if tier != 'thorough':
                # quick: replacements and truncations only for the two small grammars, every third state block of the large one
                texts = texts if d != 'mindsdb' else [t for i, t in enumerate(texts) if (i // 200) % 3 == 0]
            self.order_texts[d] = texts
        # planner inputs for the order differential: the predictor-join model, the federated-query model and the time-series
        # queries, each with <= 1 non-default feature (thorough 2), with their catalogs
        from vf import predq, qgen
        from vf.props import c08
        plans = []
        dd = 2 if tier == 'thorough' else 1
        for a in qgen.assignments(predq.FEATURES, dd, full_products=[('shape', 'where')]):
            q = predq.build(a)
            if q is not None:
                plans.append((q['sql'], q['kwargs']))
        for a in qgen.assignments(c08.FEATURES, dd, full_products=[('shape', 'join'), ('join', 'where')]):
            q = c08.build(a)
            if q is not None:
                plans.append((q['sql'], c08.catalog(q['catalog'])))
        for window in (1, 2):
            for ng in (0, 1, 2):
                for cl, _ in predq.TS_CONDS:
                    cond = dict(predq.TS_CONDS)[cl]
                    sql = 'SELECT * FROM int1.tt AS t JOIN mindsdb.tp' + (' WHERE ' + cond.format(v=2) if cond else '')
                    plans.append((sql, predq.ts_catalog(window, ng)))
        seen_p, uniq = set(), []
        for sql, kw in plans:
            key = (sql, repr(kw))
            if key not in seen_p:
                seen_p.add(key)
                uniq.append((sql, kw))
        self.order_plans = uniq
        # the same corpus under the catalog without a default namespace (references from clean processes again)
        histories.CATALOG_KIND = 'no_default'
        self.href_nd = histories.references(self.hcorpus)
        histories.CATALOG_KIND = 'rich'
        self.rops = histories.render_ops()
        self.rref = histories.render_references(self.rops)
        # warm imports (SLY builds the tables at import time; that must not run under the scheduler)
        # reference of every operation: computed in a process of its own, forked from this one (which never calls the library itself)
        names = list(OPS)
        self.reference = dict(zip(names, [tojson_back(x) for x in histories.fork_map(_ref_op, names)]))

    def cases(self):
        out = []
        plan_pairs = [p for p in PAIRS if all(OPS[n][0] == 'plan' for n in p)]
        if self.tier == 'thorough':
            for pair in PAIRS:
                out.append(('sched', pair, 1, 'calls'))
                out.append(('sched', pair, 2, 'coarse'))
            for pair in PAIRS[:6] + plan_pairs + PAIRS[12:13]:
                out.append(('sched', pair, 1, 'lines_all'))
            for tr in TRIPLES:
                out.append(('sched', tr, 1, 'entries'))
        else:
            for pair in PAIRS:
                out.append(('sched', pair, 1, 'calls' if pair in plan_pairs else 'entries'))
            for pair in (('plan_model_sel_v1', 'plan_model_sel_v2'), ('print_kw', 'print_2')):
                out.append(('sched', pair, 1, 'lines'))
            for pair in (('plan_model_sel_v1', 'plan_model_sel_v2'), ('plan_model_v1', 'plan_model_v2'), ('render_mysql_1', 'render_mysql_2'), ('parse_mdb_1', 'plan_join')):
                out.append(('sched', pair, 2, 'coarse'))
        names = list(OPS)
        for first in names:
            out.append(('history', first))
        seeds = list(range(4)) if self.tier == 'quick' else list(range(32)) + ['random', 'random']
        out.append(('seeds', tuple(seeds)))
        out.append(('free', 16))
        for i in range(len(self.hcorpus)):
            out.append(('pairs', 'process', i))
            out.append(('pairs', 'reuse', i))
            out.append(('pairs', 'reuse_nodefault', i))
        for i in range(len(self.rops)):
            out.append(('rpairs', i))
        # read-only calls on the caller's tree (printing, comparing, copying, walking) before it is planned / rendered
        for i in range(len(self.hcorpus)):
            out.append(('readonly', 'plan', i))
        for i in range(len(self.rops)):
            out.append(('readonly', 'render', i))
        # order differential over the one-token deviations of the grammar explorer: a slice of texts is parsed front to back in one
        # fresh process and back to front in another; every text must be answered alike (a result that depends on which statements
        # the process saw before - e.g. an answer memoised under too coarse a key - differs between the two orders)
        for d in self.order_texts:
            n = len(self.order_texts[d])
            step = 600
            for lo in range(0, n, step):
                out.append(('order', d, lo, min(n, lo + step)))
        for lo in range(0, len(self.order_plans), 400):
            out.append(('order_plan', lo, min(len(self.order_plans), lo + 400)))
        return out

    def run_order_plan(self, res, lo, hi):
        """a slice of planner inputs planned front to back in one fresh process and back to front in another: every input must get the
        same plan (or the same error) in both"""
        from vf import histories
        items = self.order_plans[lo:hi]

        def plan_one(k):
            from mindsdb_sql import parse_sql
            from mindsdb_sql.planner import plan_query
            sql, kw = items[k]
            try:
                return ('plan', histories.canon(repr(plan_query(parse_sql(sql), **copy.deepcopy(kw)).steps)))
            except Exception as e:
                return ('exc', type(e).__name__, str(e)[:200])

        def observe_all(order):
            return {k: plan_one(k) for k in order}

        fwd = in_child(lambda: observe_all(range(len(items))))
        bwd = in_child(lambda: observe_all(range(len(items) - 1, -1, -1)))
        res.count('order_differential_plans', 2 * len(items))
        res.key(('order_plan', lo))
        diff = [k for k in range(len(items)) if fwd.get(k) != bwd.get(k)]
        if diff:
            k = diff[0]
            alone = in_child(lambda: plan_one(k))
            culprit = None
            for j in range(len(items)):
                if j != k:
                    got = in_child(lambda: (plan_one(j), plan_one(k))[1])
                    if got != alone:
                        culprit = (j, got)
                        break
            msg = f'{len(diff)} of {len(items)} planner inputs (slice {lo}:{hi}) are planned differently front-to-back and back-to-front; e.g. {items[k][0]!r}'
            if culprit is not None:
                msg += f': after planning {items[culprit[0]][0]!r} it gives {str(culprit[1])[:300]!r}, alone {str(alone)[:300]!r}'
            res.violation(f'order-of-earlier-plans-changes-result|{alone[0] if alone[0] != "exc" else alone[1]}', msg)
        return res

    # ------------------------------------------------------------------ schedules
    def run(self, case):
        res = Result()
        if case[0] == 'sched':
            return self.run_sched(res, case)
        if case[0] == 'history':
            return self.run_history(res, case[1])
        if case[0] == 'seeds':
            return self.run_seeds(res, case[1])
        if case[0] == 'free':
            return self.run_free(res, case[1])
        if case[0] == 'pairs':
            return self.run_pairs(res, case[1], case[2])
        if case[0] == 'rpairs':
            return self.run_rpairs(res, case[1])
        if case[0] == 'order':
            return self.run_order(res, case[1], case[2], case[3])
        if case[0] == 'readonly':
            return self.run_readonly(res, case[1], case[2])
        if case[0] == 'order_plan':
            return self.run_order_plan(res, case[1], case[2])

    def run_readonly(self, res, what, i):
        """the result of planning / rendering a tree must not depend on read-only calls made on that tree before"""
        from vf import histories
        from mindsdb_sql import parse_sql
        from mindsdb_sql.planner import plan_query
        from mindsdb_sql.planner.utils import query_traversal
        readers = [('str', str), ('repr', repr), ('to_tree', lambda t: t.to_tree()), ('eq_self', lambda t: t == t), ('eq_copy', lambda t: t == copy.deepcopy(t)),
                   ('copy', lambda t: t.copy()), ('to_string', lambda t: t.to_string()), ('walk', lambda t: query_traversal(t, lambda n, **kw: None)),
                   ('str_then_copy_planned', None)]
        sql = self.hcorpus[i] if what == 'plan' else self.rops[i][1]
        res.key(('readonly', what, i))
        for name, reader in readers:
            try:
                tree = parse_sql(sql)
            except Exception:
                res.count('readonly_not_parsed')
                return res
            try:
                if reader is None:
                    str(tree)
                    tree = tree.copy()
                else:
                    reader(tree)
            except Exception:
                res.count('reader_raised')
                continue
            if what == 'plan':
                try:
                    plan = plan_query(tree, **histories.rich_catalog())
                    obs = ('plan', histories.canon(repr(plan.steps)))
                except Exception as e:
                    obs = ('exc', type(e).__name__, str(e)[:200])
                want = self.href[i]
            else:
                try:
                    obs = ('sql', histories.canon(histories.make_render(self.rops[i][0]).get_string(tree, with_failback=True)))
                except Exception as e:
                    obs = ('exc', type(e).__name__, str(e)[:200])
                want = tuple(self.rref[i])
            res.count('readonly_histories')
            if tuple(obs) != tuple(want):
                res.violation(f'read-only-call-before-changes-result|{what}|{name}',
                              f'{sql!r}: after {name}(tree) the {what} result is {str(obs)[:300]!r} instead of {str(want)[:300]!r}')
                break
        return res

    def run_order(self, res, d, lo, hi):
        texts = self.order_texts[d][lo:hi]

        def observe_all(order):
            out = {}
            for i in order:
                o = obs_parse(texts[i], d)
                out[i] = hashlib.blake2b(repr(o).encode(), digest_size=8).hexdigest()
            return out

        fwd = in_child(lambda: observe_all(range(len(texts))))
        bwd = in_child(lambda: observe_all(range(len(texts) - 1, -1, -1)))
        res.count('order_differential_parses', 2 * len(texts))
        res.key(('order', d, lo))
        diff = [i for i in range(len(texts)) if fwd.get(i) != bwd.get(i)]
        if diff:
            i = diff[0]
            # find a short witness: the text alone vs after one other text of the slice
            alone = in_child(lambda: obs_parse(texts[i], d))
            culprit = None
            for j in range(len(texts)):
                if j == i:
                    continue
                got = in_child(lambda: (obs_parse(texts[j], d), obs_parse(texts[i], d))[1])
                if got != alone:
                    culprit = (j, got)
                    break
            kind = alone[0] if alone[0] != 'exc' else alone[1]
            if culprit is not None:
                res.violation(f'order-of-earlier-parses-changes-result|{d}|{kind}',
                              f'{len(diff)} of {len(texts)} texts are answered differently front-to-back and back-to-front; e.g. after parsing {texts[culprit[0]]!r} the call parse_sql({texts[i]!r}, {d!r}) gives {str(culprit[1])[:300]!r}, alone it gives {str(alone)[:300]!r}')
            else:
                res.violation(f'order-of-earlier-parses-changes-result|{d}|{kind}',
                              f'{len(diff)} of {len(texts)} texts (slice {lo}:{hi}) are answered differently when the slice is parsed front-to-back and back-to-front, e.g. {texts[i]!r}')
        return res

    def run_rpairs(self, res, i):
        """all two-step renderer histories with first = rops[i]: new renderer objects for both calls (by dialect name and by dialect class), and,
        for the same dialect, one renderer object used twice"""
        from vf import histories
        first = self.rops[i]
        bad = None
        for j, second in enumerate(self.rops):
            for shared in ((False, True) if first[0] == second[0] else (False,)):
                r = histories.make_render(first[0]) if shared else None
                o1 = histories.observe_render(first, r)
                o2 = histories.observe_render(second, r)
                res.count('render_pair_histories')
                if bad is None and tuple(o1) != tuple(self.rref[i]):
                    bad = ('first', shared, i, i, o1, self.rref[i])
                if bad is None and tuple(o2) != tuple(self.rref[j]):
                    bad = ('second', shared, i, j, o2, self.rref[j])
        res.key(('rpairs', i))
        if bad is not None:
            which, shared, i, j, got, want = bad
            hist = [self.rops[i]] if which == 'first' else [self.rops[i], self.rops[j]]
            res.violation(f'render-history-changes-result|{"shared-renderer" if shared else "new-renderers"}|{hist[-1][0]}',
                          f'after rendering {hist[:-1]!r} (and whatever this worker rendered before) rendering {hist[-1]!r} gives {str(got)[:300]!r} instead of {str(want)[:300]!r}')
        return res

    def run_pairs(self, res, kind, i):
        """all two-step histories (first = corpus[i], second = every corpus entry): process history with fresh planners, or one reused
        QueryPlanner object.  The observation of the second call must equal its reference (computed before anything else ran)."""
        from vf import histories
        first = self.hcorpus[i]
        bad = None
        href = self.href
        if kind == 'reuse_nodefault':
            histories.CATALOG_KIND = 'no_default'
            href = self.href_nd
        for j, second in enumerate(self.hcorpus):
            planner = histories.new_planner() if kind.startswith('reuse') else None
            o1 = histories.observe(first, planner)[0]
            o2 = histories.observe(second, planner)[0]
            res.count('pair_histories')
            if o1 != href[i] and bad is None:
                bad = ('first', i, i, o1, href[i])
            if o2 != href[j] and bad is None:
                bad = ('second', i, j, o2, href[j])
        res.key(('pairs', kind, i))
        if bad is not None and kind == 'reuse_nodefault':
            which, i, j, got, want = bad
            hist = [self.hcorpus[i]] if which == 'first' else [self.hcorpus[i], self.hcorpus[j]]
            res.violation('history-changes-result|reuse|catalog-without-default-namespace', f'one QueryPlanner (catalog without default namespace) used for {hist!r}: the last call observed {str(got)[:400]!r} instead of {str(want)[:400]!r}')
            return res
        if bad is not None:
            which, i, j, got, want = bad
            hist = [self.hcorpus[i]] if which == 'first' else [self.hcorpus[i], self.hcorpus[j]]
            conf = histories.confirm_in_fresh_process(kind, hist, ROOT, REPO)
            if conf != tuple(want) and list(conf) != list(want):
                res.violation(f'history-changes-result|{kind}|two-step', f'{kind} history {hist!r}: the last call observed {str(conf)[:400]!r} instead of {str(want)[:400]!r} '
                                                                      f'(reproduced in a fresh interpreter running only this history)')
            else:
                res.violation(f'history-changes-result|{kind}|longer', f'after the calls made earlier in this worker and then {hist!r} the last call observed {str(got)[:400]!r} '
                                                                    f'instead of {str(want)[:400]!r} (the two-step history alone does not reproduce it)')
        return res

    def run_sched(self, res, case):
        from vf import sched
        _, names, bound, gran = case
        line_funcs = ()
        if gran in ('lines', 'lines_all'):
            import sly.yacc
            import sly.lex
            from mindsdb_sql.parser.ast.select import identifier
            from mindsdb_sql.planner.query_planner import QueryPlanner
            line_funcs = (identifier.get_reserved_words, QueryPlanner.get_predictor, QueryPlanner.get_predictor_namespace_and_name_from_identifier,
                          QueryPlanner.resolve_database_table)
            if gran == 'lines_all':
                line_funcs += (sly.yacc.Parser.parse, sly.lex.Lexer.tokenize)
        sched.install(line_funcs)
        if gran in ('entries', 'coarse'):
            sched.mon.set_events(sched.TOOL, sched.mon.events.PY_START | sched.mon.events.PY_RESUME)
        else:
            sched.mon.set_events(sched.TOOL, sched.EVENTS)
        if gran not in ('lines', 'lines_all'):
            sched.clear_line_funcs()
        if gran == 'coarse':
            # bound 2: only functions of the planner, the renderer and parse_sql itself are scheduling points
            focus = {'get_predictor', 'get_predictor_namespace_and_name_from_identifier', 'plan_select_from_predictor', 'is_predictor', 'plan_select_identifier', 'from_query', 'plan_query', 'get_string', 'get_exec_params', 'parse_sql', 'get_query_info', 'resolve_database_table'}
            sched._is_repo = (lambda code: code.co_filename.startswith(sched.REPO + '/mindsdb_sql/') and code.co_name in focus) if self.tier == 'quick' else (lambda code: code.co_filename.startswith((sched.REPO + '/mindsdb_sql/planner/', sched.REPO + '/mindsdb_sql/render/', sched.REPO + '/mindsdb_sql/__init__')))
        else:
            sched._is_repo = lambda code: code.co_filename.startswith(sched.REPO + '/')
        want = [self.reference[n] for n in names]
        outcomes = set()
        bad = []

        def make_bodies():
            reset_lazy_globals()
            env = Env(names)
            return [(lambda n=n: env.call(n)) for n in names]

        def on_run(run):
            obs = tuple(r[1] if r and r[0] == 'ok' else r for r in run.results)
            outcomes.add(hashlib.blake2b(repr(obs).encode(), digest_size=8).hexdigest())
            for i, (o, w) in enumerate(zip(obs, want)):
                if o != w and len(bad) < 3:
                    bad.append((list(run.choices), i, o, w, [p[3] for p in run.points[:0]]))

        cap = 60000 if self.tier == 'thorough' else 15000
        try:
            n, maxpoints, capped = sched.explore(make_bodies, bound, on_run, max_schedules=cap, budget_s=900)
        except (sched.Deadlock, sched.ReplayDivergence) as e:
            res.violation(f'scheduler|{type(e).__name__}|{"+".join(names)}', str(e))
            return res
        res.count('schedules', n)
        res.count('schedules_' + gran, n)
        res.count('capped_explorations', 1 if capped else 0)
        res.covered('max_points', maxpoints)
        res.key((names, bound, gran, n))
        for o in outcomes:
            res.covered('distinct_outcomes', (names, o))
        if bad:
            choices, i, o, w, _ = bad[0]
            # replay twice before believing
            r1 = sched.Run(make_bodies(), choices).execute()
            r2 = sched.Run(make_bodies(), choices).execute()
            same = r1.results == r2.results
            first_switch = next((k for k, c in enumerate(choices) if c != 0), None)
            where = r1.points[first_switch][3] if first_switch is not None and first_switch < len(r1.points) else '?'
            if not same:
                res.violation(f'scheduler|replay-not-deterministic|{"+".join(names)}', f'schedule {choices}')
            else:
                res.violation(f'interleaving-changes-result|{"+".join(names)}',
                              f'threads {names}, preemption bound {bound}, granularity {gran}: under the schedule with non-default choices at points {[(k, c) for k, c in enumerate(choices) if c]} (first switch at point {first_switch} in {where}) '
                              f'call {names[i]} observed {str(o)[:300]!r} instead of {str(w)[:300]!r}')
        return res

    # ------------------------------------------------------------------ histories
    def run_history(self, res, first):
        names = list(OPS)
        depth = 4 if self.tier == 'thorough' else 3
        reset_lazy_globals()
        base = global_state()
        states = set()
        trans = 0
        reported = set()
        # all sequences starting with `first`; the environment (catalog, renderers) is shared along a history
        tails = itertools.product(names, repeat=depth - 1) if self.tier == 'thorough' else itertools.product(names, repeat=depth - 1)
        import time
        t0 = time.time()
        for tail in tails:
            if time.time() - t0 > 900:
                res.count('capped_explorations')
                break
            seq = (first,) + tail
            if self.tier == 'quick' and len(set(seq)) == 1 and False:
                continue
            reset_lazy_globals()
            env = Env()
            cat0 = env.fingerprint()
            prev = 'init'
            for k, name in enumerate(seq):
                obs = env.call(name)
                trans += 1
                if obs != self.reference[name] and (name, 'obs') not in reported:
                    reported.add((name, 'obs'))
                    res.violation(f'history-changes-result|{name}', f'after {seq[:k]} the call {name} observed {str(obs)[:300]!r} instead of {str(self.reference[name])[:300]!r}')
                res.covered('history_edges', (prev, name))
                prev = name
            states.add(hashlib.blake2b(repr((tuple(sorted(set(seq))), env.fingerprint() != cat0)).encode(), digest_size=6).hexdigest())
        # global-state fingerprints: after each single op and after the longest history containing every op once
        reset_lazy_globals()
        env = Env()
        g0 = global_state()
        env.call(first)
        g1 = global_state()
        diff = state_diff(g0, g1)
        res.covered('global_state_digests', hashlib.blake2b(repr(g1).encode(), digest_size=8).hexdigest())
        for d in diff:
            res.covered('globals_changed_by_a_call', (first, d))
        env2 = Env()
        for name in names:
            env2.call(name)
        g2 = global_state()
        res.covered('global_state_digests', hashlib.blake2b(repr(g2).encode(), digest_size=8).hexdigest())
        for d in state_diff(g1, g2):
            res.covered('globals_changed_by_a_call', ('*', d))
        res.count('history_transitions', trans)
        res.count('histories', len(names) ** (depth - 1))
        res.key(('history', first, len(states)))
        return res

    # ------------------------------------------------------------------ seeds
    def run_seeds(self, res, seeds):
        digests = {}
        for s in seeds:
            env = dict(os.environ)
            env['PYTHONHASHSEED'] = str(s)
            env['PYTHONPATH'] = REPO + ':' + ROOT
            p = subprocess.run([sys.executable, '-m', 'vf.props.c20', '--dump'], capture_output=True, text=True, env=env, cwd=ROOT, timeout=300)
            if p.returncode != 0:
                res.violation('seed-run-failed', p.stderr[-500:])
                return res
            digests[s if s != 'random' else f'random{len(digests)}'] = json.loads(p.stdout)
            res.count('seed_processes')
        first = next(iter(digests.values()))
        for name in OPS:
            vals = {}
            for s, d in digests.items():
                vals.setdefault(json.dumps(d[name]), []).append(s)
            if len(vals) > 1:
                a, b = list(vals.items())[:2]
                res.violation(f'hash-seed-dependent|{name}', f'{OPS[name][1]!r}: seeds {a[1]} observe {a[0][:300]} but seeds {b[1]} observe {b[0][:300]}')
        res.key(('seeds', len(digests)))
        return res

    def run_free(self, res, nthreads):
        """free-running complement (sampling, not coverage): many real threads hammer the same calls without the scheduler"""
        import threading
        names = list(OPS)
        env = Env()
        errors = []

        def body(k):
            for it in range(30):
                for j, name in enumerate(names):
                    n = names[(j + k) % len(names)]
                    o = env.call(n)
                    if o != self.reference[n] and len(errors) < 3:
                        errors.append((n, o))
        ts = [threading.Thread(target=body, args=(k,)) for k in range(nthreads)]
        for t in ts:
            t.start()
        for t in ts:
            t.join()
        res.count('free_running_calls', nthreads * 30 * len(names))
        res.key(('free', nthreads))
        if errors:
            n, o = errors[0]
            res.violation(f'free-running-threads-change-result|{n}', f'{n}: observed {str(o)[:300]!r} instead of {str(self.reference[n])[:300]!r}')
        return res

    def coverage(self, agg):
        c = agg['counters']
        return {'exhaustive': c.get('capped_explorations', 0) == 0,
                'states': len(agg['cover'].get('global_state_digests', ())) + len(agg['cover'].get('distinct_outcomes', ())),
                'transitions': c.get('schedules', 0) + c.get('history_transitions', 0) + 2 * c.get('pair_histories', 0),
                'traces_validated_against_impl': c.get('schedules', 0) + c.get('histories', 0),
                'schedules_explored': c.get('schedules', 0), 'max_scheduling_points_in_one_execution': max(agg['cover'].get('max_points', {0})),
                'distinct_thread_outcomes': len(agg['cover'].get('distinct_outcomes', ())),
                'history_call_pairs_covered': len(agg['cover'].get('history_edges', ())),
                'order_differential_parses': c.get('order_differential_parses', 0), 'order_differential_plans': c.get('order_differential_plans', 0), 'two_step_histories_over_planner_corpus': c.get('pair_histories', 0), 'two_step_renderer_histories': c.get('render_pair_histories', 0), 'planner_corpus_size': len(self.hcorpus),
                'globals_changed_by_calls': sorted(str(x) for x in agg['cover'].get('globals_changed_by_a_call', ()))[:40],
                'hash_seed_sweep_is_exhaustive': False, 'free_running_pass_is_sampling': True,
                'lazy_globals_restored_before_every_schedule': getattr(self, 'nsnap', 0), 'operations': list(OPS), 'pairs': [list(p) for p in PAIRS],
                'rule': 'schedules: every pair x all schedules with <= 1 preemption at call granularity, LINE granularity for 9 pairs, bound 2 at coarse granularity for 3 '
                        'pairs (thorough: bound 2 for all pairs, triples at bound 1); histories: all call sequences of depth 3 (thorough 4) over 21 operations with a shared '
                        'environment; seeds 0..3 (thorough 0..31 + 2 random); all ordered pairs of a planner corpus as process histories and on one reused QueryPlanner; read-only calls (str, repr, to_tree, ==, copy, walk) on the tree before planning / rendering it; order differential: the one-token deviations of every parser state (all for sqlite / mysql, every third block of 200 for mindsdb in quick) parsed front-to-back and back-to-front in two fresh processes, the same for the planner inputs of the predictor / federated / time-series query models with <= 1 non-default feature; states = distinct global-state digests + distinct thread outcome vectors'}

    def describe_case(self, case):
        return [str(x) for x in case]


if __name__ == '__main__' and '--dump' in sys.argv:
    env = Env()
    out = {}
    for name in OPS:
        out[name] = env.call(name)
    print(json.dumps(out))

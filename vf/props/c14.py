"""C14 - in a table-model join the model gets the right rows and arguments, and only those.

Feature-model enumeration (vf.predq) of joins of 1..2 tables / sub-selects with 1..2 non time-series
models x WHERE shapes (boolean context x condition owner) x aliases x USING options x catalogs.
The generator's structured description of each query is the ground truth.
"""
import copy

from mindsdb_sql.exceptions import PlanningException
from mindsdb_sql.parser import ast as A
from mindsdb_sql.planner import plan_query, steps as S
from mindsdb_sql.planner.step_result import Result as StepResult

from vf import parsing, predq, qgen, reflect
from vf.props.c10 import table_leaves
from vf.runner import Check, Result, exc_sig

MODEL_COLS = {'p1', 'p2', 'p'}


def conjuncts(node):
    if isinstance(node, A.BinaryOperation) and node.op.lower() == 'and':
        return conjuncts(node.args[0]) + conjuncts(node.args[1])
    return [node] if node is not None else []


def norm_pred(node):
    """normal form of a simple predicate: (kind, column, value) ; None if it is not of that form"""
    if isinstance(node, A.BetweenOperation):
        c, lo, hi = node.args
        if isinstance(c, A.Identifier) and isinstance(lo, A.Constant) and isinstance(hi, A.Constant):
            return ('between', str(c.parts[-1]), (lo.value, hi.value))
        return None
    if isinstance(node, A.BinaryOperation):
        op = node.op.lower()
        a, b = node.args
        if isinstance(b, A.Identifier) and not isinstance(a, A.Identifier):
            a, b = b, a
            op = {'<': '>', '>': '<', '<=': '>=', '>=': '<='}.get(op, op)
        if not isinstance(a, A.Identifier):
            return None
        col = str(a.parts[-1])
        kind = {'=': 'eq', '>': 'gt', '<': 'lt', '>=': 'ge', '<=': 'le', 'in': 'in', 'is': 'is', 'is not': 'isnot', '<>': 'ne', '!=': 'ne'}.get(op, op)
        if isinstance(b, A.NullConstant):
            return (kind, col, None)
        if isinstance(b, A.Constant):
            return (kind, col, b.value)
        if isinstance(b, A.Tuple) and all(isinstance(i, A.Constant) for i in b.items):
            return (kind, col, tuple(i.value for i in b.items))
        if isinstance(b, A.Parameter) and isinstance(b.value, StepResult):
            return ('semi-join', col, None)
    return None


def on_equalities(tree):
    """column = column conjuncts of the ON clauses of a statement, as sets of (table reference, column), lower case"""
    out = []
    for j, _ in reflect.walk(tree, want=lambda o: isinstance(o, A.Join)):
        for cj in conjuncts(j.condition):
            if isinstance(cj, A.BinaryOperation) and cj.op == '=' and all(isinstance(x, A.Identifier) and len(x.parts) >= 2 for x in cj.args):
                out.append(frozenset((str(x.parts[-2]).lower(), str(x.parts[-1]).lower()) for x in cj.args))
    return out


# statements planned in the same process just before the judged one (process-level planner state must not leak into a plan)
PRELUDES = [None,
            ['SELECT * FROM int1.t1 JOIN int2.t2 ON t1.id = t2.id JOIN int1.t3 ON t3.id = t2.id',
             'SELECT * FROM int2.t2 JOIN int1.t1 ON t1.id = t2.id JOIN mindsdb.pred WHERE pred.p1 = 7 USING partition_size = 5']]


class CHECK(Check):
    pid = 'C14'
    level = 'exploration'
    assumptions = ['conditions on model columns under OR / NOT / inside functions are outside what the statement fixes: recorded, not judged',
                   'the `col IN <result>` semi-join restriction derived from an ON equality is not a WHERE conjunct and is judged by C08, not here',
                   'partition_size is a planner directive, not a model option', 'with to_predict metadata a condition on the target column need not become an argument']

    def setup(self, tier, seed):
        self.tier, self.seed = tier, seed

    def cases(self):
        d = 3 if self.tier == 'thorough' else 2
        out = []
        for a in qgen.assignments(predq.FEATURES, d, full_products=[('shape', 'where'), ('shape', 'using'), ('where', 'alias'), ('shape', 'catalog'), ('where', 'catalog'),
                                                                      ('shape', 'alias', 'using'), ('shape', 'where', 'catalog')]):
            if predq.build(a) is not None:
                out.append(tuple(a[n] for n in predq.FEATURES))
        return out

    def feed(self, ref, by_num, memo=None):
        memo = memo if memo is not None else {}
        n = ref.step_num if isinstance(ref, StepResult) else ref
        if n in memo:
            return memo[n]
        st = by_num.get(n)
        memo[n] = set()
        out = set()
        if st is None:
            out = {'<missing>'}
        elif isinstance(st, S.FetchDataframeStep):
            leaves = []
            table_leaves(st.query, leaves)
            out = {str(l.parts[-1]) for l in leaves}
        elif isinstance(st, (S.SubSelectStep,)):
            out = self.feed(st.dataframe, by_num, memo)
        elif isinstance(st, S.QueryStep):
            out = self.feed(st.from_table, by_num, memo)
        elif isinstance(st, S.JoinStep):
            out = self.feed(st.left, by_num, memo) | self.feed(st.right, by_num, memo)
        elif isinstance(st, S.ApplyPredictorStep):
            out = self.feed(st.dataframe, by_num, memo) | {str(st.predictor.parts[0]) if not str(st.predictor.parts[-1]).isdigit() else str(st.predictor.parts[-2])}
        elif isinstance(st, S.MapReduceStep):
            # the container yields what its sub-steps compute from the partitions of `values`: the data plus every model applied inside
            out = self.feed(st.values, by_num, memo)
            for s in (st.step if isinstance(st.step, list) else [st.step]):
                if isinstance(s, S.ApplyPredictorStep):
                    out = out | {str(s.predictor.parts[0]) if not str(s.predictor.parts[-1]).isdigit() else str(s.predictor.parts[-2])}
                elif isinstance(s, S.FetchDataframeStep):
                    leaves = []
                    table_leaves(s.query, leaves)
                    out = out | {str(l.parts[-1]) for l in leaves}
        memo[n] = out
        return out

    def run(self, case):
        res = Result()
        a = dict(zip(predq.FEATURES, case))
        q = predq.build(a)
        res.key((q['sql'], q['catalog']))
        inner = Result()
        self.evaluate(a, inner)
        res.counters.update(inner.counters)
        seen = set()
        for sig, msg in inner.violations:
            kind = sig.split('|')[0]
            if kind in seen:
                continue
            seen.add(kind)

            def ev(trial):
                if predq.build(trial) is None:
                    return None
                r = Result()
                self.evaluate(trial, r)
                return {s.split('|')[0] for s, _ in r.violations}
            cur = qgen.minimise(a, predq.FEATURES, ev, kind)
            res.violation(f'{kind}|{predq.label(cur)}', msg + f'\n    minimal failing features: {predq.label(cur)} (from {predq.label(a)})')
        return res

    def evaluate(self, a, res):
        for prelude in PRELUDES:
            self.evaluate_after(a, res, prelude)
            if res.violations:
                break
        return res

    def evaluate_after(self, a, res, prelude):
        q = predq.build(a)
        out = parsing.outcome(q['sql'], 'mindsdb')
        if out.kind != 'ok':
            res.count('not_parsed')
            return res
        for text in prelude or ():
            try:
                plan_query(parsing.outcome(text, 'mindsdb').value, integrations=['int1', 'int2'], predictor_metadata=[dict(name='pred', integration_name='mindsdb')])
            except Exception:
                pass
        try:
            plan = plan_query(out.value, **copy.deepcopy(q['kwargs']))
        except (PlanningException, NotImplementedError) as e:
            res.count('declared_unsupported')
            return res
        except Exception as e:
            res.count('internal_error_(C09)')
            return res
        res.count('plans')
        sig_tail = f'{q["shape"]}|where={q["where"]}'
        top = list(plan.steps)
        allsteps = []
        for s in top:
            allsteps.append(s)
            if isinstance(s, S.MapReduceStep):
                allsteps.extend(s.step if isinstance(s.step, list) else [s.step])
        by_num = {s.step_num: s for s in allsteps}
        applies = [s for s in allsteps if isinstance(s, S.ApplyPredictorStep)]
        ctx = f'{q["sql"]!r} [{q["catalog"]}]' + (f' planned after {prelude!r}' if prelude else '') + f'\n    plan: {plan.steps}'
        # (1) one apply step per model, fed by the data it is joined to
        for m in q['models']:
            hits = [s for s in applies if m['name'] in [str(p) for p in s.predictor.parts]]
            if len(hits) != 1:
                res.violation(f'apply-step-count|{q["shape"]}', f'model {m["name"]}: {len(hits)} apply steps; {ctx}')
                continue
            st = hits[0]
            fed = self.feed(st.dataframe, by_num)
            if fed != set(m['feed']):
                res.violation(f'model-input-is-not-the-joined-data|{q["shape"]}', f'model {m["name"]} is applied to data from {sorted(fed)}, expected {sorted(m["feed"])}; {ctx}')
            # (2) row_dict
            rd = st.row_dict or {}
            exp = {c[3]: c[4] for c in q['conjuncts'] if c[0] == 'm' and c[1] == 'top' and c[2] == 'eq'} if m is q['models'][0] else {}
            judged = {k: v for k, v in exp.items()}
            if q['catalog'] in ('to_predict', 'to_predict_first_only'):
                judged.pop('p1', None)
                rd_j = {k: v for k, v in rd.items() if k != 'p1'}
            else:
                rd_j = dict(rd)
            # entries stemming from un-judged contexts (or / not / func) are tolerated
            tolerated = {c[3] for c in q['conjuncts'] if c[0] == 'm' and c[1] != 'top'}
            rd_cmp = {k: v for k, v in rd_j.items() if k not in tolerated or k in judged}
            if not all(c[1] == 'top' for c in q['conjuncts'] if c[0] == 'm') and False:
                pass
            if rd_cmp != judged and all(c[1] == 'top' or c[0] != 'm' for c in q['conjuncts']):
                res.violation(f'row_dict|{sig_tail}', f'model {m["name"]}: row_dict {rd!r}, expected {exp!r}; {ctx}')
            for k in rd:
                if k not in MODEL_COLS | {c[3] for c in q['conjuncts'] if c[0] == 'm'}:
                    res.violation(f'table-condition-became-model-argument|{sig_tail}', f'model {m["name"]}: row_dict {rd!r} contains table column {k}; {ctx}')
            # (5) params
            expp = q['using']
            got = st.params
            if predq.USINGS[a['using']][0] == 'per_model_options':
                expp = {'x': 1} if m['name'] == 'pred' else {'x': 2}
            if m['name'] == 'pred2' and a['using'] and predq.USINGS[a['using']][0] in ('alias_prefixed', 'alias_prefixed_dotted'):
                expp = None
            ok = (got == expp) or (not expp and not got)
            if not ok:
                res.violation(f'using-params|{predq.USINGS[a["using"]][0]}|{q["shape"]}', f'model {m["name"]}: params {got!r}, expected {expp!r}; {ctx}')
            # (6) columns_map
            cm = {k: '.'.join(str(p) for p in v.parts).lower() for k, v in (st.columns_map or {}).items()}
            if m['on_map'] is None:
                res.count('columns_map_not_fixed_by_the_statement')
            elif cm != {k: v.lower() for k, v in m['on_map'].items()}:
                res.violation(f'columns_map|{q["shape"]}', f'model {m["name"]}: columns_map {cm!r}, expected {m["on_map"]!r}; {ctx}')
        # (3)/(4) fetch filters
        top_eq_model_cols = {c[3] for c in q['conjuncts'] if c[0] == 'm'}
        allowed = {}
        for c in q['conjuncts']:
            if c[0] in ('t', 't2') and c[1] == 'top':
                allowed.setdefault('t1' if c[0] == 't' else 't2', set()).add((c[2], c[3], c[4]))
        if q['shape'] == 'sub_m':
            allowed.setdefault('t1', set()).add(('gt', 'a', 0))
        if q['shape'] in ('t_m_sub', 'sub_m_t', 'cte_named_like_table'):
            allowed.setdefault('t2', set()).add(('gt', 'b', 0))
        for t in q['tables']:
            for c in t.get('allowed_on', ()):
                allowed.setdefault(t['name'], set()).add(c)
        for st in allsteps:
            if not isinstance(st, S.FetchDataframeStep) or st.query is None:
                continue
            leaves = []
            table_leaves(st.query, leaves)
            names = {str(l.parts[-1]) for l in leaves}
            for idn, path in reflect.walk(st.query, want=lambda o: isinstance(o, A.Identifier)):
                if str(idn.parts[-1]) in top_eq_model_cols and str(idn.parts[-1]) in MODEL_COLS:
                    res.violation(f'model-condition-sent-to-integration|{sig_tail}', f'fetch on {st.integration} mentions model column {idn}; {ctx}')
                    break
            if len(names) != 1:
                continue
            tname = next(iter(names))
            for cj in conjuncts(st.query.where):
                np_ = norm_pred(cj)
                if np_ is not None and np_[0] == 'semi-join':
                    # `col IN <result n>` is a restriction derived from a join condition: the statement must equate this table's col
                    # with a column of a data table, and result n must be computed from (only) that side of the join so far
                    res.count('semi_join_filters_judged')
                    param = cj.args[1] if isinstance(cj.args[1], A.Parameter) else cj.args[0]
                    fed = self.feed(param.value, by_num)
                    ref_of = {t['name']: str(t['ref']).lower() for t in q['tables']}
                    name_of = {v: k for k, v in ref_of.items()}
                    me = (ref_of.get(tname, tname), np_[1].lower())
                    partners = set()
                    for eq in on_equalities(out.value):
                        if me in eq and len(eq) == 2:
                            (u, d), = eq - {me}
                            partners.add(name_of.get(u, '?' + u))
                    if not partners or not (fed and fed <= {n for n in ref_of} and fed & partners):
                        res.violation(f'semi-join-filter-without-join-condition|{q["shape"]}',
                                      f'fetch of {tname} is restricted by {str(cj)!r} (data of {sorted(fed)}); the statement equates {me[0]}.{me[1]} with columns of {sorted(partners) or "no data table"}; {ctx}')
                    continue
                if np_ is None or np_ not in allowed.get(tname, set()):
                    res.violation(f'pushed-filter-is-not-a-top-level-conjunct|{sig_tail}', f'fetch of {tname} has WHERE conjunct {str(cj)!r}, allowed {sorted(map(str, allowed.get(tname, ())))}; {ctx}')
        # outer query must not keep consumed model conditions
        consumed = {c[3] for c in q['conjuncts'] if c[0] == 'm' and c[1] == 'top' and c[2] == 'eq'}
        if q['catalog'] in ('to_predict', 'to_predict_first_only'):
            consumed.discard('p1')
        for st in top:
            if isinstance(st, S.QueryStep) and st.query is not None and st.query.where is not None:
                mrefs = {str(m['ref']).lower() for m in q['models']} | {m['name'] for m in q['models']}
                for idn, path in reflect.walk(st.query.where, want=lambda o: isinstance(o, A.Identifier)):
                    if len(idn.parts) > 1 and str(idn.parts[-2]).lower() not in mrefs:
                        continue        # a table column that happens to be called like a model argument
                    if str(idn.parts[-1]) in consumed:
                        res.violation(f'model-argument-still-filters-outer-result|{sig_tail}', f'outer query WHERE {str(st.query.where)!r} still tests {idn}; {ctx}')
                        break
        return res

    def coverage(self, agg):
        return {'exhaustive': True, 'features': {n: [o[0] if isinstance(o, tuple) else o for o in opts] for n, opts in predq.FEATURES.items()},
                'rule': 'all assignments with <= d non-default features (quick 2, thorough 3) + full products shape x where, shape x using, where x alias, '
                        'shape x catalog, where x catalog, shape x alias x using, shape x where x catalog; every statement also planned after two other statements of the same process; semi-join filters judged against the ON equalities; distinct_nontrivial = distinct (SQL, catalog)'}

    def describe_case(self, case):
        q = predq.build(dict(zip(predq.FEATURES, case)))
        return {'features': q['label'], 'sql': q['sql'], 'catalog': q['catalog']}

"""QGEN - bounded feature-model enumeration: all assignments with at most d non-default feature values,
plus full products of selected feature pairs."""
import itertools


def assignments(features, d, full_products=()):
    """features: dict name -> list of options (index 0 = default).  Yields dict name -> option index for every
    assignment with <= d non-default features, plus the full product of every feature tuple in full_products
    (all other features at default).  No duplicates."""
    names = list(features)
    seen = set()

    def emit(assign):
        key = tuple(assign.get(n, 0) for n in names)
        if key in seen:
            return None
        seen.add(key)
        return {n: k for n, k in zip(names, key)}

    for k in range(0, d + 1):
        for chosen in itertools.combinations(names, k):
            ranges = [range(1, len(features[n])) for n in chosen]
            for combo in itertools.product(*ranges):
                a = emit(dict(zip(chosen, combo)))
                if a is not None:
                    yield a
    for group in full_products:
        ranges = [range(len(features[n])) for n in group]
        for combo in itertools.product(*ranges):
            a = emit(dict(zip(group, combo)))
            if a is not None:
                yield a


def minimise(assign, features, evaluate, kind):
    """greedy reduction of the set of non-default features that still shows a failure of `kind`;
    evaluate(assignment) -> iterable of failure kinds (or None if the assignment is not meaningful)"""
    cur = dict(assign)
    for name in features:
        if cur[name] == 0:
            continue
        trial = dict(cur)
        trial[name] = 0
        kinds = evaluate(trial)
        if kinds is not None and kind in kinds:
            cur = trial
    return cur

"""C17 - renderer fallback contract: with fallback never raises; without it only SQLAlchemyError /
NotImplementedError; never mutates the tree.

Every accepted sentence of the GSX S0 families (3 dialects; includes every shape the renderer does not
support) + lexeme respellings + CREATE TABLE variants, x 7 dialect names x {get_string,
get_exec_params} x {fallback on, off}.
"""
from sqlalchemy.exc import SQLAlchemyError

from mindsdb_sql.render.sqlalchemy_render import SqlalchemyRender

from vf import gsx, lexemes, parsing, reflect
from vf.runner import Check, Result, exc_sig

NAMES = ['mysql', 'postgresql', 'postgres', 'sqlite', 'mssql', 'oracle', 'Snowflake']

CREATE_VARIANTS = [
    'create table t (a int)', 'create table t (a serial)', 'create table t (a SERIAL, b int)', 'create table t (a int primary key)',
    'create table t (a int, primary key (a))', 'create table t (a varchar(10) default x)', 'create table t (a int not null, b text null)',
    'create table t (a foo)', 'create table t (a int default 1)' , 'create table db.t (a int)', 'create table a.b.c (x int)',
    'create or replace table t (a int)', 'create table if not exists t (a float, b bool, c datetime)', 'create table t (a int) ',
    'create table t (select 1)', 'drop table t', 'drop table if exists a.b', 'drop table a.b.c',
    'select cast(a as foo)', 'select count(a, b)', 'select cast(a as int)', 'select cast(a as varchar(10))', 'select a::foo', 'select (a, b) + 1',
    'select x in (1, 2)', 'select x in y', 'select * from t as a.b', 'insert into t values (1)', 'insert into t (a, a) values (1, 2)',
    'update t set a = 1 from (select 1) as s where 1 = 1', 'select * from a.b.c.d', 'select ?', 'select @v', 'select f(a from b)',
    'insert into t (a, b, c) values (1, 2)', 'insert into t (a, b) values (1, 2), (3)', 'insert into t (a) values (1, 2)', 'insert into t (a, b) values (1)',
    'insert into t (a, b) select 1', 'update t set a = 1, a = 2', 'select * from t1 right join t2 on t1.a = t2.a', 'select * from a.b.c', 'select a from t limit 1, 2',
    'create table t (c int, d text)', 'create table t (z float)', 'create table abc (q int, r int, s int)', 'create table abc (s int)',
    # set operations whose last branch carries ORDER BY / LIMIT and a shape the translation rejects
    'select a from t union select b from c.s.u order by b limit 3', 'select a from t union select cast(b as foo) from u order by b',
    'select 1 union select count(a, b) from t limit 2 offset 1', 'select a from t intersect select b from c.s.u order by b', 'select a from t except select b from c.s.u limit 1',
    'select a from t union all select b from u order by b limit 3', 'select a from t union select b from u union select cast(c as foo) from v order by 1',
    'select sum(distinct a)', 'select count(distinct a, b)', 'select interval 1 day', "select interval '1' day", 'select a -> 1',
]


def fresh_of(name, meth, fb, tree):
    try:
        v = getattr(SqlalchemyRender(name), meth)(tree, with_failback=fb)
        return ('value', v if isinstance(v, str) else (v[0] if isinstance(v, tuple) and v and isinstance(v[0], str) else repr(v)))
    except Exception as e:
        return ('raises', type(e).__name__)


class CHECK(Check):
    pid = 'C17'
    level = 'exploration'
    assumptions = ['"never raise" includes the fallback path itself (printing the tree)']

    def setup(self, tier, seed):
        self.tier, self.seed = tier, seed
        self.models = {d: gsx.Model(d) for d in gsx.DIALECTS}
        self.fams = {d: gsx.Families(m, 1) for d, m in self.models.items()}
        self.renders = None

    def cases(self):
        out = []
        thorough = self.tier == 'thorough'
        for d, m in self.models.items():
            f = self.fams[d]
            sents = set(f.s0_pairs()) | set(f.s0_sibling_pairs())
            if thorough:
                sents |= set(f.s0_edges())
            for s in sorted(sents):
                if any(t not in m.lexeme for t in s) or not m.simulate(s)[0]:
                    continue
                out.append((d, m.text_of(s)))
                if thorough:
                    for i, sp, text in lexemes.deviations(m, s, magic=False):
                        out.append((d, text))
            for t in CREATE_VARIANTS:
                out.append((d, t))
            if thorough:
                for text in f.kw_family(['abc', 'model', 'type']):
                    out.append((d, text))
        return out

    def run(self, case):
        res = Result()
        d, text = case
        out = parsing.outcome(text, d)
        if out.kind != 'ok':
            res.count('not_accepted')
            return res
        tree = out.value
        res.count('trees')
        root = type(tree).__name__
        if self.renders is None:
            self.renders = {n: SqlalchemyRender(n) for n in NAMES}
        before = reflect.fingerprint(tree)
        res.key(before)
        reported = set()
        if getattr(self, 'renders_b', None) is None:
            self.renders_b = {n: SqlalchemyRender(n) for n in NAMES}

        def outcome(r, meth, fb):
            try:
                v = getattr(r, meth)(tree, with_failback=fb)
                return ('value', v if isinstance(v, str) else (v[0] if isinstance(v, tuple) and v and isinstance(v[0], str) else repr(v)))
            except Exception as e:
                return ('raises', type(e).__name__)

        for name in NAMES:
            # the contract speaks about one call: what a renderer that has rendered nothing else answers is the reference for renderers with a history
            fresh = {(meth, fb): outcome(SqlalchemyRender(name), meth, fb) for meth in ('get_string', 'get_exec_params') for fb in (True, False)}
            rb = self.renders_b[name]
            for meth in ('get_string', 'get_exec_params'):
                for fb in (False, True):
                    got = outcome(rb, meth, fb)
                    if got != fresh[(meth, fb)] and 'history' not in reported:
                        reported.add('history')
                        res.violation(f'answer-depends-on-renderer-history|{meth}|fallback-{"on" if fb else "off"}',
                                      f'{text!r}: {meth}(with_failback={fb}) for {name} on a renderer used before gives {str(got)[:150]!r}; a new renderer gives {str(fresh[(meth, fb)])[:150]!r}')
        # "the SQLAlchemy rendering" is the rendering of THIS tree: a rendered CREATE TABLE defines exactly the columns the tree lists
        from mindsdb_sql.parser import ast as A
        if isinstance(tree, A.CreateTable) and getattr(tree, 'columns', None):
            want_cols = [str(c.name).lower() for c in tree.columns]
            for name in ('mysql', 'postgresql', 'sqlite'):
                got = outcome(self.renders_b[name], 'get_string', False)
                if got[0] != 'value':
                    continue
                back = parsing.outcome(got[1], 'mindsdb')
                if back.kind == 'ok' and isinstance(back.value, A.CreateTable) and back.value.columns:
                    have = [str(c.name).lower() for c in back.value.columns]
                    res.count('create_table_column_checks')
                    if have != want_cols and 'columns' not in reported:
                        reported.add('columns')
                        res.violation('rendering-is-not-of-this-tree|CreateTable.columns', f'{text!r}: rendered for {name} as {got[1]!r}: columns {have}, the tree has {want_cols}')
        for name in NAMES:
            r = self.renders[name]
            for meth in ('get_string', 'get_exec_params'):
                for fb in (True, False):
                    res.count('renders')
                    try:
                        v = getattr(r, meth)(tree, with_failback=fb)
                        if fresh_of(name, meth, fb, tree) != ('value', v if isinstance(v, str) else (v[0] if isinstance(v, tuple) and v and isinstance(v[0], str) else repr(v))) and 'history' not in reported:
                            reported.add('history')
                            res.violation(f'answer-depends-on-renderer-history|{meth}|fallback-{"on" if fb else "off"}',
                                          f'{text!r}: {meth}(with_failback={fb}) for {name} on a renderer used before gives {str(v)[:150]!r}; a new renderer answers differently')
                        ok_type = isinstance(v, str) if meth == 'get_string' else (isinstance(v, tuple) and len(v) == 2 and isinstance(v[0], str))
                        if not ok_type:
                            sig = f'returns-non-string|{meth}|{root}'
                            if sig not in reported:
                                reported.add(sig)
                                res.violation(sig, f'{text!r}: {meth}(fallback={fb}) for {name} returned {v!r}')
                        else:
                            res.count('rendered')
                    except (SQLAlchemyError, NotImplementedError) as e:
                        if fb:
                            sig = f'fallback-on|raises|{exc_sig(e)}'
                            if sig not in reported:
                                reported.add(sig)
                                res.violation(sig, f'{text!r}: {meth}(with_failback=True) for {name} raised {type(e).__name__}: {str(e)[:120]}')
                        else:
                            res.count('declared_unsupported')
                    except Exception as e:
                        sig = f'{"fallback-on" if fb else "fallback-off"}|raises|{exc_sig(e)}'
                        if sig not in reported:
                            reported.add(sig)
                            res.violation(sig, f'{text!r}: {meth}(with_failback={fb}) for {name} raised {type(e).__name__}: {str(e)[:120]}')
                    after = reflect.fingerprint(tree)
                    if after != before:
                        sig = f'mutates-input|{root}'
                        if sig not in reported:
                            reported.add(sig)
                            res.violation(sig, f'{text!r}: {meth}(with_failback={fb}) for {name} changed the tree it was given')
                        before = after
        return res

    def coverage(self, agg):
        return {'exhaustive': True, 'dialect_names': NAMES,
                'rule': 'every accepted production-pair sentence (thorough: + edge cover + lexeme respellings) of the 3 dialects + hand-kept CREATE TABLE / '
                        'unsupported-shape variants x 7 names x 2 methods x fallback on/off; distinct_nontrivial = distinct tree fingerprints'}

    def describe_case(self, case):
        return {'dialect': case[0], 'text': case[1]}

#!/usr/bin/env python3
"""Maintenance tool (never run by a check): record the violation signatures the named check currently
reports as known findings.  Usage: tools/mkknown.py Cxx [--tier quick|thorough] [--replace]
Every entry carries the signature, one concrete failing input and the message of that input.
Use only after each signature has been reviewed as a genuine defect (see DESIGN.md section 5)."""
import json
import os
import subprocess
import sys

ROOT = os.path.dirname(os.path.dirname(os.path.abspath(__file__)))


def main():
    pid = sys.argv[1]
    tier = 'quick'
    if '--tier' in sys.argv:
        tier = sys.argv[sys.argv.index('--tier') + 1]
    replace = '--replace' in sys.argv
    p = subprocess.run([os.path.join(ROOT, 'check'), pid, '--tier', tier, '--list-sigs'], capture_output=True, text=True, cwd=ROOT)
    path = os.path.join(ROOT, 'known_findings.json')
    data = json.load(open(path))
    if replace:
        data['findings'] = [f for f in data['findings'] if f['property'] != pid]
    have = {(f['property'], f['signature']) for f in data['findings']}
    n = 0
    for line in p.stdout.splitlines():
        if not line.startswith('SIG '):
            continue
        r = json.loads(line[4:])
        if (pid, r['signature']) in have:
            continue
        if r['signature'].startswith('harness:'):
            print('NOT recording harness failure', r['signature'])
            continue
        data['findings'].append({
            'property': pid, 'signature': r['signature'],
            'what': (r['msg'].splitlines()[0] if r['msg'] else r['signature'])[:240],
            'example': r['example'], 'cases_when_recorded': r['count'], 'tier_when_recorded': tier,
        })
        n += 1
    data['findings'].sort(key=lambda f: (f['property'], f['signature']))
    with open(path, 'w') as fh:
        json.dump(data, fh, indent=1, ensure_ascii=False)
    print('added', n, 'findings for', pid)


if __name__ == '__main__':
    main()

"""Feature model of table-model join queries (non time-series) with a structured description of every
query that the oracles of C09 / C10 / C14 use as ground truth."""
import collections

# ----------------------------------------------------------------------------- catalogs
PRED_CATALOGS = ['list', 'legacy_dict', 'project', 'to_predict', 'dict_integrations', 'default_mindsdb', 'to_predict_str', 'to_predict_other', 'meta_extras',
                 'to_predict_second_only', 'to_predict_first_only']


def catalog(kind):
    """-> (kwargs for plan_query, model qualifier used in the text, project name of the models)"""
    meta = lambda **kw: [dict(name='pred', integration_name='mindsdb', **kw), dict(name='pred2', integration_name='mindsdb', **kw)]
    if kind == 'list':
        return dict(integrations=['int1', 'int2'], predictor_metadata=meta()), 'mindsdb', 'mindsdb'
    if kind == 'legacy_dict':
        return dict(integrations=['int1', 'int2'], predictor_namespace='mindsdb', predictor_metadata={'pred': {}, 'pred2': {}}), 'mindsdb', 'mindsdb'
    if kind == 'project':
        return dict(integrations=['int1', 'int2', {'name': 'proj', 'type': 'project'}],
                    predictor_metadata=[dict(name='pred', integration_name='proj'), dict(name='pred2', integration_name='proj')]), 'proj', 'proj'
    if kind == 'to_predict':
        return dict(integrations=['int1', 'int2'], predictor_metadata=meta(to_predict=['p1'])), 'mindsdb', 'mindsdb'
    if kind == 'to_predict_str':
        # the target named by a plain string (more than one character), not a list
        return dict(integrations=['int1', 'int2'], predictor_metadata=meta(to_predict='p1x')), 'mindsdb', 'mindsdb'
    if kind in ('to_predict_second_only', 'to_predict_first_only'):
        # the two models predict different columns: the target of one is an ordinary argument of the other
        tp = ('zz', 'p1') if kind == 'to_predict_second_only' else ('p1', 'zz')
        return dict(integrations=['int1', 'int2'], predictor_metadata=[dict(name='pred', integration_name='mindsdb', to_predict=[tp[0]]),
                                                                        dict(name='pred2', integration_name='mindsdb', to_predict=[tp[1]])]), 'mindsdb', 'mindsdb'
    if kind == 'to_predict_other':
        return dict(integrations=['int1', 'int2'], predictor_metadata=meta(to_predict=['zz'])), 'mindsdb', 'mindsdb'
    if kind == 'meta_extras':
        # optional metadata keys present with None / empty values
        return dict(integrations=['int1', 'int2'], predictor_metadata=meta(to_predict=None, timeseries=False, window=None, group_by_columns=None, order_by_column=None)), 'mindsdb', 'mindsdb'
    if kind == 'dict_integrations':
        return dict(integrations=[{'name': 'int1', 'type': 'data'}, {'name': 'int2', 'type': 'data'}], predictor_metadata=meta(), default_namespace='mindsdb'), 'mindsdb', 'mindsdb'
    if kind == 'default_mindsdb':
        return dict(integrations=['int1', 'int2'], predictor_metadata=meta(), default_namespace='mindsdb'), None, 'mindsdb'
    raise ValueError(kind)


SHAPES = ['t_m', 'm_t', 't_t_m', 't_m_t', 'sub_m', 't_m_m', 't_m_m_aliased', 't_m_t_m', 'implicit', 'on_map', 'on_map_two', 'on_map_reversed', 'on_map_paren', 'on_map_func', 'on_map_not', 'on_map_or', 'on_map_between', 'on_map_gt', 'on_subquery', 'on_map_and_subquery', 'left_join', 't_m_version',
          # a second table whose ON clause carries more than the key equality (allowed pushdown: top-level conjuncts of an inner / left join's ON)
          't_t_m_on_and', 't_t_m_on_or', 't_t_m_on_not', 't_t_m_on_constfirst', 't_t_m_left_on_and', 't_t_m_right_on_and', 't_t_m_on_paren_or',
          # a table joined after the model: no ON, non-equality ON, ON against a model column
          't_m_t_noon', 't_m_t_nonequi', 't_m_t_on_model', 't_m_t_left',
          # a sub-select joined after / before the model
          't_m_sub', 't_m_sub_noon', 'sub_m_t',
          # a CTE named like the (integration-qualified) table; an ON clause of the model that also relates two tables
          'cte_named_like_table', 'on_map_extra_table_condition']
ON_EXTRA = {
    # shape -> (join keyword, ON text with {t}, conjuncts of ON that may be pushed into the fetch of t2)
    't_t_m_on_and': ('JOIN', '{t}.id = t2.id AND t2.b = 3', {('eq', 'b', 3)}),
    't_t_m_on_or': ('JOIN', '{t}.id = t2.id OR t2.b = 3', set()),
    't_t_m_on_not': ('JOIN', '{t}.id = t2.id AND NOT t2.b = 3', set()),
    't_t_m_on_constfirst': ('JOIN', '{t}.id = t2.id AND 3 > t2.b', {('lt', 'b', 3)}),
    't_t_m_left_on_and': ('LEFT JOIN', '{t}.id = t2.id AND t2.b = 3', {('eq', 'b', 3)}),
    't_t_m_right_on_and': ('RIGHT JOIN', '{t}.id = t2.id AND t2.b = 3', set()),
    't_t_m_on_paren_or': ('JOIN', '{t}.id = t2.id AND (t2.b = 3 OR t2.y = 1)', set()),
}
ON_MAPS = {
    # shape -> (ON text, expected column mapping or None when the statement fixes none)
    'on_map_two': ('{m}.p1 = {t}.a AND {m}.p2 = {t}.x', {'p1': '{t}.a', 'p2': '{t}.x'}),
    'on_map_reversed': ('{t}.a = {m}.p1', {'p1': '{t}.a'}),
    'on_map_paren': ('({m}.p1 = {t}.a)', {'p1': '{t}.a'}),
    'on_map_func': ('{m}.p1 = lower({t}.a)', None),
    'on_map_not': ('NOT {m}.p1 = {t}.a', None),
    'on_map_or': ('{m}.p1 = {t}.a OR {m}.p2 = {t}.x', None),
    'on_map_between': ('{m}.p1 BETWEEN {t}.a AND {t}.x', None),
    'on_map_gt': ('{m}.p1 > {t}.a', None),
    'on_subquery': ('{t}.a IN (SELECT b FROM int2.t2)', None),
    'on_map_and_subquery': ('{m}.p1 = {t}.a AND {t}.x IN (SELECT y FROM int2.t2)', None),
}
WHERES = [
    # label, sql with {t} {m} placeholders, list of conjunct descriptors: (owner, context, kind, col, value)
    ('none', '', []),
    ('m_eq', '{m}.p1 = 5', [('m', 'top', 'eq', 'p1', 5)]),
    ('t_eq', '{t}.a = 1', [('t', 'top', 'eq', 'a', 1)]),
    ('both', '{t}.a = 1 AND {m}.p1 = 5', [('t', 'top', 'eq', 'a', 1), ('m', 'top', 'eq', 'p1', 5)]),
    ('or', '{t}.a = 1 OR {m}.p1 = 5', [('t', 'or', 'eq', 'a', 1), ('m', 'or', 'eq', 'p1', 5)]),
    ('not_m', 'NOT {m}.p1 = 5', [('m', 'not', 'eq', 'p1', 5)]),
    ('not_t', 'NOT {t}.a = 1', [('t', 'not', 'eq', 'a', 1)]),
    ('nested', '{t}.x > 5 AND ({t}.a = 1 OR {m}.p1 = 5)', [('t', 'top', 'gt', 'x', 5), ('t', 'or', 'eq', 'a', 1), ('m', 'or', 'eq', 'p1', 5)]),
    ('func_m', 'coalesce({m}.p1, 0) = 5', [('m', 'func', 'eq', 'p1', 5)]),
    ('const_left_m', '5 = {m}.p1', [('m', 'top', 'eq', 'p1', 5)]),
    ('const_left_t', '1 = {t}.a', [('t', 'top', 'eq', 'a', 1)]),
    ('between_t', '{t}.a BETWEEN 1 AND 2', [('t', 'top', 'between', 'a', (1, 2))]),
    ('in_t', '{t}.a IN (1, 2)', [('t', 'top', 'in', 'a', (1, 2))]),
    ('m_gt', '{m}.p1 > 5', [('m', 'top', 'gt', 'p1', 5)]),
    ('two_m', "{m}.p1 = 5 AND {m}.p2 = 'x'", [('m', 'top', 'eq', 'p1', 5), ('m', 'top', 'eq', 'p2', 'x')]),
    ('t_and_m_or_t', '{t}.a = 1 AND {m}.p1 = 5 OR {t}.x = 10', [('t', 'or', 'eq', 'a', 1), ('m', 'or', 'eq', 'p1', 5), ('t', 'or', 'eq', 'x', 10)]),
    ('not_both', 'NOT ({t}.a = 1 AND {m}.p1 = 5)', [('t', 'not', 'eq', 'a', 1), ('m', 'not', 'eq', 'p1', 5)]),
    ('t_isnull', '{t}.a IS NULL', [('t', 'top', 'is', 'a', None)]),
    ('t2_eq', 't2.b = 1', [('t2', 'top', 'eq', 'b', 1)]),
    ('const_first_gt_t', '5 > {t}.a', [('t', 'top', 'lt', 'a', 5)]),
    ('const_first_le_t', '10 <= {t}.x', [('t', 'top', 'ge', 'x', 10)]),
    ('const_first_both', '5 > {t}.a AND 5 = {m}.p1', [('t', 'top', 'lt', 'a', 5), ('m', 'top', 'eq', 'p1', 5)]),
    ('t_ne', '{t}.a <> 1', [('t', 'top', 'ne', 'a', 1)]),
    ('t_isnot_true', '{t}.a IS NOT TRUE', [('t', 'top', 'isnot', 'a', True)]),
    ('t_or_t', '{t}.a = 1 OR {t}.x = 2', [('t', 'or', 'eq', 'a', 1), ('t', 'or', 'eq', 'x', 2)]),
    ('t2_const_first', '1 < t2.b', [('t2', 'top', 'gt', 'b', 1)]),
    ('m_p_eq', '{m}.p = 5', [('m', 'top', 'eq', 'p', 5)]),
    ('m_p_and_p1', "{m}.p = 5 AND {m}.p1 = 'v'", [('m', 'top', 'eq', 'p', 5), ('m', 'top', 'eq', 'p1', 'v')]),
    # a model column named like a table column, fixed to the same constant as that table column (look-alike conjuncts)
    ('m_a_and_t_a', '{m}.a = 1 AND {t}.a = 1', [('m', 'top', 'eq', 'a', 1), ('t', 'top', 'eq', 'a', 1)]),
    ('t_a_and_m_a', '{t}.a = 1 AND {m}.a = 1', [('t', 'top', 'eq', 'a', 1), ('m', 'top', 'eq', 'a', 1)]),
    ('m_a_and_t_x_same_const', '{m}.p1 = 1 AND {t}.x = 1 AND {t}.a = 1', [('m', 'top', 'eq', 'p1', 1), ('t', 'top', 'eq', 'x', 1), ('t', 'top', 'eq', 'a', 1)]),
    # a table condition one of whose bounds / operands is a model column: it concerns two sources and may not go to the table's fetch
    ('between_t_model_bound', '{t}.a BETWEEN 1 AND {m}.p1', [('t', 'top', 'two-sources', 'a', None)]),
    ('t_eq_model_col', '{t}.a = {m}.p1', [('t', 'top', 'two-sources', 'a', None)]),
    ('t_in_with_model_col', '{t}.a IN (1, {m}.p1)', [('t', 'top', 'two-sources', 'a', None)]),
]
ALIASES = [('none', None, None), ('as', 'ta', 'ma'), ('upper', 'TA', 'MA')]
USINGS = [('none', '', None, None), ('one', 'USING x = 1', {'x': 1}, None), ('mixed_case', "USING X = 1, Yy = 'a'", {'x': 1, 'yy': 'a'}, None),
          ('partition', 'USING partition_size = 2', {}, 2), ('partition_and', 'USING partition_size = 2, x = 1', {'x': 1}, 2),
          ('alias_prefixed', 'USING {m}.x = 1', {'x': 1}, None),
          ('alias_prefixed_dotted', "USING {m}.prompt.template = 't', {m}.x = 1", {'prompt.template': 't', 'x': 1}, None),
          ('values_kept', "USING s = 'MiXed Case', n = NULL, f = 1.5", {'s': 'MiXed Case', 'n': None, 'f': 1.5}, None),
          # per-model options of a statement with two aliased models m1 / m2 (only meaningful for the *_aliased shapes)
          ('two_partitions', 'USING m1.partition_size = 2, m2.partition_size = 3', {}, 2),
          ('two_partitions_same', 'USING m1.partition_size = 2, m2.partition_size = 2', {}, 2),
          ('partition_second_only', 'USING m2.partition_size = 2', {}, 2),
          ('partition_and_second', 'USING partition_size = 2, m2.partition_size = 3', {}, 2),
          ('per_model_options', 'USING m1.x = 1, m2.x = 2', None, None)]
TARGETS = [('star', '*'), ('cols', '{t}.a, {m}.p')]
LIMITS = [('none', ''), ('l1', 'LIMIT 1'), ('order_limit', 'ORDER BY {t}.a LIMIT 2')]

FEATURES = collections.OrderedDict([
    ('shape', SHAPES), ('where', WHERES), ('alias', ALIASES), ('using', USINGS), ('targets', TARGETS), ('limit', LIMITS), ('catalog', PRED_CATALOGS),
])


def build(a):
    shape = SHAPES[a['shape']]
    wl, wsql, conj = WHERES[a['where']]
    al, ta, ma = ALIASES[a['alias']]
    ul, usql, uparams, psize = USINGS[a['using']]
    tl, tsql = TARGETS[a['targets']]
    ll, lsql = LIMITS[a['limit']]
    cat = PRED_CATALOGS[a['catalog']]
    kwargs, mq, project = catalog(cat)
    mname = (mq + '.pred') if mq else 'pred'
    m2name = (mq + '.pred2') if mq else 'pred2'
    version = None
    if shape == 't_m_version':
        if mq is None:
            return None
        mname += '.3'
        version = '3'
    t = ta or 't1'
    m = ma or 'pred'
    tref = 'int1.t1' + (f' AS {ta}' if ta else '')
    mref = mname + (f' AS {ma}' if ma else '')
    if ul in ('alias_prefixed', 'alias_prefixed_dotted') and not ma:
        return None
    if ul in ('two_partitions', 'two_partitions_same', 'partition_second_only', 'partition_and_second', 'per_model_options') and shape not in ('t_m_m_aliased', 't_m_t_m'):
        return None
    if any(c[0] == 't2' for c in conj) and shape not in ('t_t_m', 't_m_t') and shape not in ON_EXTRA and not shape.startswith('t_m_t'):
        return None
    models = [dict(name='pred', ref=m, project=project, version=version, feed=['t1'], on_map={})]
    tables = [dict(name='t1', integration='int1', ref=t)]
    if shape in ('t_m', 't_m_version'):
        frm = f'{tref} JOIN {mref}'
    elif shape == 'm_t':
        frm = f'{mref} JOIN {tref}'
    elif shape == 't_t_m':
        frm = f'{tref} JOIN int2.t2 ON {t}.id = t2.id JOIN {mref}'
        tables.append(dict(name='t2', integration='int2', ref='t2'))
        models[0]['feed'] = ['t1', 't2']
    elif shape == 't_m_t':
        frm = f'{tref} JOIN {mref} JOIN int2.t2 ON {t}.id = t2.id'
        tables.append(dict(name='t2', integration='int2', ref='t2'))
    elif shape in ('t_m_t_noon', 't_m_t_nonequi', 't_m_t_on_model', 't_m_t_left'):
        tail = {'t_m_t_noon': 'JOIN int2.t2', 't_m_t_nonequi': f'JOIN int2.t2 ON {t}.a < t2.b', 't_m_t_on_model': f'JOIN int2.t2 ON {m}.p1 = t2.b',
                't_m_t_left': f'LEFT JOIN int2.t2 ON {t}.id = t2.id'}[shape]
        frm = f'{tref} JOIN {mref} {tail}'
        tables.append(dict(name='t2', integration='int2', ref='t2'))
    elif shape in ('t_m_sub', 't_m_sub_noon', 'sub_m_t'):
        if ta or ma:
            return None
        if shape == 't_m_sub':
            frm = f'{tref} JOIN {mref} JOIN (SELECT * FROM int2.t2 WHERE b > 0) AS s ON t1.id = s.id'
        elif shape == 't_m_sub_noon':
            frm = f'{tref} JOIN {mref} JOIN (SELECT * FROM int2.t2) AS s'
        else:
            frm = f'(SELECT * FROM int2.t2 WHERE b > 0) AS s JOIN {mref} JOIN {tref} ON t1.id = s.id'
            models[0]['feed'] = ['t2']
        tables.append(dict(name='t2', integration='int2', ref='s', via_subselect=True))
    elif shape == 'cte_named_like_table':
        if ta or ma:
            return None
        cte = 'WITH t1 AS (SELECT * FROM int2.t2 WHERE b > 0) '
        frm = f'int1.t1 AS o JOIN t1 AS old ON o.id = old.id JOIN {mref}'
        tables = [dict(name='t1', integration='int1', ref='o'), dict(name='t2', integration='int2', ref='old', via_subselect=True)]
        models[0]['feed'] = ['t1', 't2']
        t = 'o'
    elif shape == 'on_map_extra_table_condition':
        frm = f'{tref} JOIN int2.t2 ON {t}.id = t2.id JOIN {mref} ON {m}.p1 = {t}.a AND {t}.x = t2.y'
        tables.append(dict(name='t2', integration='int2', ref='t2'))
        models[0]['feed'] = ['t1', 't2']
        models[0]['on_map'] = {'p1': f'{t}.a'}
    elif shape in ON_EXTRA:
        jk, on, allowed_on = ON_EXTRA[shape]
        frm = f'{tref} {jk} int2.t2 ON {on.replace("{t}", t)} JOIN {mref}'
        tables.append(dict(name='t2', integration='int2', ref='t2', allowed_on=allowed_on))
        models[0]['feed'] = ['t1', 't2']
    elif shape == 'sub_m':
        if ta:
            return None
        frm = f'(SELECT * FROM int1.t1 WHERE a > 0) AS t1 JOIN {mref}'
        tables[0]['via_subselect'] = True
    elif shape == 't_m_m':
        if ma:
            return None
        frm = f'{tref} JOIN {mref} JOIN {m2name}'
        models.append(dict(name='pred2', ref='pred2', project=project, version=None, feed=['t1', 'pred'], on_map={}))
    elif shape in ('t_m_m_aliased', 't_m_t_m'):
        if ma or ta:
            return None
        mid = ' JOIN int2.t2 ON t1.id = t2.id' if shape == 't_m_t_m' else ''
        frm = f'{tref} JOIN {mname} AS m1{mid} JOIN {m2name} AS m2'
        m = 'm1'
        models = [dict(name='pred', ref='m1', project=project, version=None, feed=['t1'], on_map={}),
                  dict(name='pred2', ref='m2', project=project, version=None, feed=['t1', 'pred'] + (['t2'] if mid else []), on_map={})]
        if mid:
            tables.append(dict(name='t2', integration='int2', ref='t2'))
    elif shape == 'implicit':
        frm = f'{tref}, {mref}'
    elif shape in ON_MAPS:
        cond, mp = ON_MAPS[shape]
        frm = f'{tref} JOIN {mref} ON ' + cond.replace('{t}', t).replace('{m}', m)
        # mp None: the statement does not fix a mapping (comparison under NOT / OR / inside a function ...): not judged
        models[0]['on_map'] = None if mp is None else {k: v.replace('{t}', t) for k, v in mp.items()}
    elif shape == 'on_map':
        frm = f'{tref} JOIN {mref} ON {t}.a = {m}.p1'
        models[0]['on_map'] = {'p1': f'{t}.a'}
    elif shape == 'left_join':
        frm = f'{tref} LEFT JOIN {mref}'
    else:
        return None
    fmt = lambda s: s.replace('{t}', t).replace('{m}', m)
    sql = (cte if shape == 'cte_named_like_table' else '') + f'SELECT {fmt(tsql)} FROM {frm}'
    if wsql:
        sql += ' WHERE ' + fmt(wsql)
    if lsql:
        sql += ' ' + fmt(lsql)
    if usql:
        sql += ' ' + fmt(usql)
    return dict(sql=sql, kwargs=kwargs, tables=tables, models=models, conjuncts=conj, using=uparams, partition_size=psize, catalog=cat,
                label=label(a), shape=shape, where=wl)


def label(a):
    out = []
    for name, opts in FEATURES.items():
        k = a[name]
        if k:
            o = opts[k]
            out.append(f'{name}={o[0] if isinstance(o, tuple) else o}')
    return ','.join(out) or 'default'


# ----------------------------------------------------------------------------- time-series queries (shared by C09 / C15)
TS_CONDS = [('none', None), ('gt', 't.ts > {v}'), ('ge', 't.ts >= {v}'), ('eq', 't.ts = {v}'), ('lt', 't.ts < {v}'), ('le', 't.ts <= {v}'),
            ('between', 't.ts BETWEEN {v} AND 4'), ('gt_latest', 't.ts > LATEST'), ('eq_latest', 't.ts = LATEST')]
TS_PART = [('none', None), ('eq', "t.g = 'a'"), ('in', "t.g IN ('a', 'b')")]


def ts_catalog(window, ngroup):
    if ngroup in (None, 'missing'):
        # optional metadata: the key present with value None / the key absent  (= no partition columns)
        meta = dict(name='tp', integration_name='mindsdb', timeseries=True, order_by_column='ts', window=window)
        if ngroup is None:
            meta['group_by_columns'] = None
        return dict(integrations=['int1'], predictor_metadata=[meta])
    groups = ['g', 'h'][:ngroup]
    return dict(integrations=['int1'], predictor_metadata=[dict(name='tp', integration_name='mindsdb', timeseries=True, order_by_column='ts',
                                                               group_by_columns=groups, window=window)])

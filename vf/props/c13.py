"""C13 - query_traversal visits every table, expression and nested query once, in textual order,
flags tables/targets exactly, and a returned node replaces exactly the visited node.

Trees: every accepted sentence of the GSX S0 families (3 dialects) whose root is a query/DML/CREATE
TABLE statement, with lexemes numbered in textual order.  Ground truth comes from a reflective walk of
the object graph (vf.reflect), not from the walker under test.
"""
import copy
import re

from mindsdb_sql.parser import ast as A
from mindsdb_sql.parser.ast.base import ASTNode
from mindsdb_sql.planner.utils import query_traversal

from vf import gsx, parsing, reflect
from vf.runner import Check, Result, exc_sig

ROOTS = (A.Select, A.Union, A.Intersect, A.Except, A.Insert, A.Update, A.Delete, A.CreateTable)


def classify(root):
    """ground truth: path -> dict(required, table, target) for every ASTNode in the graph"""
    info = {}
    for node, path in reflect.walk(root):
        if path == ():
            info[path] = dict(node=node, required=True, table=False, target=False)
            continue
        own, field = reflect.owner(root, path)
        # the chain of fields from the root decides exemptions
        fields = [p for p in path if isinstance(p, str)]
        req = True
        reason = None
        if 'alias' in fields:
            req, reason = False, 'alias'
        elif isinstance(node, A.CommonTableExpression):
            req, reason = False, 'cte-entry'
        elif isinstance(own, A.CommonTableExpression) and field != 'query':
            req, reason = False, 'cte-name-or-columns'
        elif isinstance(node, A.OrderBy):
            req, reason = False, 'orderby-wrapper'
        elif isinstance(own, A.Select) and field in ('limit', 'offset', 'using', 'mode', 'modifiers'):
            req, reason = False, 'limit-offset-using'
        elif isinstance(own, A.Identifier) and field == 'parts':
            req, reason = False, 'star-inside-identifier'
        elif isinstance(own, A.Insert) and field == 'columns':
            req, reason = False, 'insert-column-names'
        elif isinstance(own, A.Update) and field in ('keys', 'from_select_alias'):
            req, reason = False, 'update-keys'
        elif isinstance(own, A.NativeQuery):
            req, reason = False, 'native-query-integration'
        elif not isinstance(own, ASTNode):
            req, reason = False, 'inside-non-ast-object'
        elif not all(walkable(o) for o in ancestors(root, path)):
            req, reason = False, 'inside-a-non-query-statement'
        elif any(f == 'using' for f in fields):
            req, reason = False, 'using-options'
        table = False
        if isinstance(own, A.Select) and field == 'from_table' and path[-1] == 'from_table':
            table = True
        elif isinstance(own, A.Join) and field in ('left', 'right') and path[-1] in ('left', 'right'):
            table = True
        elif isinstance(own, (A.Insert, A.Update, A.Delete)) and field == 'table':
            table = True
        elif isinstance(own, A.CreateTable) and field == 'name':
            table = True
        target = isinstance(own, A.Select) and field == 'targets' and len(path) >= 2 and path[-2] == 'targets'
        info[path] = dict(node=node, required=req, table=table, target=target, reason=reason)
    return info


def ancestors(root, path):
    """instances on the way from the root to (excluding) the node at path"""
    out = []
    cur = root
    for st in path:
        if isinstance(cur, ASTNode) or reflect.is_obj(cur):
            out.append(cur)
        if isinstance(st, str):
            cur = getattr(cur, st)
        elif isinstance(st, int):
            cur = cur[st]
        else:
            cur = cur[st[1]]
    return out


def walkable(obj):
    """statement / expression classes the property speaks about (queries, DML, CREATE TABLE, expressions)"""
    mod = type(obj).__module__
    return mod.startswith('mindsdb_sql.parser.ast.select') or isinstance(obj, (A.Insert, A.Update, A.Delete, A.CreateTable)) \
        or type(obj).__name__ in ('Latest',)


def leaf_number(node):
    """textual number carried by a leaf's lexeme (c12, 12, 's12', "d12", 12.5), else None"""
    if isinstance(node, A.Identifier):
        p = node.parts[0]
        m = re.fullmatch(r'[cd](\d+)', str(p))
        return int(m.group(1)) if m else None
    if isinstance(node, A.Constant) and not isinstance(node, (A.NullConstant,)):
        v = node.value
        if isinstance(v, bool):
            return None
        if isinstance(v, int):
            return v if v > 0 else None
        if isinstance(v, float):
            return int(v) if v > 0 else None
        if isinstance(v, str):
            m = re.fullmatch(r'[sd](\d+)', v)
            return int(m.group(1)) if m else None
    return None


def slot(root, path):
    own, field = reflect.owner(root, path)
    return f'{type(own).__name__}.{field}'


class CHECK(Check):
    pid = 'C13'
    level = 'exploration'
    assumptions = ['required nodes = table references, expression nodes, nested queries; aliases, CTE entries/names, OrderBy wrappers, LIMIT/OFFSET '
                   'constants, USING options, INSERT column names and Star parts inside identifiers are tolerated if visited at most once',
                   'table position = Select.from_table, Join.left/right, Insert/Update/Delete.table, CreateTable.name']

    def setup(self, tier, seed):
        self.tier, self.seed = tier, seed
        self.models = {d: gsx.Model(d) for d in gsx.DIALECTS}
        self.fams = {d: gsx.Families(m, 1) for d, m in self.models.items()}

    def cases(self):
        out = []
        seen = set()
        for d, m in self.models.items():
            f = self.fams[d]
            sents = set(f.s0_pairs()) | set(f.s0_edges()) | set(f.s0_triples()) | set(f.s0_sibling_pairs())
            if self.tier == 'thorough':
                sents |= set(gsx.Families(m, 2).s0_edges()) | set(f.s0_pairs(table=1)) | set(f.s0_triples(table=1))
            for s in sorted(sents):
                if s[0] not in ('SELECT', 'LPAREN', 'WITH', 'INSERT', 'UPDATE', 'DELETE', 'CREATE'):
                    continue
                if any(t not in m.lexeme for t in s) or not m.simulate(s)[0]:
                    continue
                text = m.text_of(s, numbered=True)
                out.append((d, text))
        # hand-kept shapes that put every node kind in the positions the property text names
        extra = [
            'select case c1 when c2 then c3 else c4 end from c5',
            'select extract(c1 from c2) from c3',
            'select c1 from c2 join c3 on c4 = c5 join c6 on c7 = c8',
            'with q as (select c1 from c2) select c3 from q where c4 in (select c5 from c6)',
            'update c1 set c2 = 3, c4 = 5 where c6 = 7',
            'delete from c1 where c2 = 3',
            'insert into c1 (a, b) values (2, 3), (4, 5)',
            'select c1, (select c2 from c3) from c4 where exists (select c5 from c6) order by c7 limit 8',
            'select sum(c1) over (partition by c2 order by c3) from c4',
            'select cast(c1 as int), c2::int, (c3, 4) from c5 group by c6 having c7 > 8',
            'select c1 from (select c2 from c3) as t where c4 between 5 and 6',
            'select c1 from c2 union select c3 from c4',
            'create table c1 (select c2 from c3)',
            'insert into c1 select c2 from c3',
            # structurally equal siblings (the replaced one must be found by identity, not by equality); names and constants carry no
            # numbers here: the order oracle reads numbers off the lexemes
            'select x, y, x from z', 'select null, x, null from z', "select 'k', 'k', 'k' from z", "select x from z where y = 'k' and y = 'k'",
            "insert into z (a, b) values ('k', 'k'), ('k', 'k')", "select f(x, x), g('k', 'k') from z", 'select x from z group by y, y order by w, w',
            "select x from z where y in ('k', 'k', 'k')", "select case when x = 'k' then 'v' when x = 'k' then 'v' else 'v' end from z", 'select x from z join z on y = y',
            'select x from z union select x from z', "select (select 'k'), (select 'k') from z", "select x from z where x between 'k' and 'k'",
            "insert into z (a, b) values (?, 'x'), ('k', 'y')", "insert into z (a, b) values ('k', 'l'), (?, ?), ('m', 'n')", 'select ?, x, ? from z',
        ]
        for d in gsx.DIALECTS:
            for t in extra:
                out.append((d, t))
        return out

    def run(self, case):
        res = Result()
        d, text = case
        out = parsing.outcome(text, d)
        if out.kind != 'ok' or not isinstance(out.value, ROOTS):
            res.count('not_a_statement_of_interest')
            return res
        root = out.value
        try:
            info = classify(root)
        except Exception:
            raise
        res.count('trees')
        res.key(reflect.fingerprint(root, ignore=()))
        by_id = {}
        for path, i in info.items():
            by_id.setdefault(id(i['node']), []).append(path)
            res.covered('slots', slot(root, path) if path else 'root')
        visits = []

        def cb(node, is_table=False, is_target=False, parent_query=None, **kw):
            visits.append((node, is_table, is_target))
            return None

        work = root  # traversal with a None-returning callback must not change the tree
        before = reflect.fingerprint(root)
        try:
            query_traversal(work, cb)
        except Exception as e:
            res.violation(f'crash|{exc_sig(e)}', f'{text!r}: query_traversal raised {type(e).__name__}: {e}')
            return res
        if reflect.fingerprint(root) != before:
            res.violation(f'mutates-without-replacement|{type(root).__name__}', f'{text!r}: traversal with a callback returning None changed the tree')
        # (1) exactly once
        count = {}
        for node, _, _ in visits:
            count[id(node)] = count.get(id(node), 0) + 1
        for path, i in info.items():
            n = count.get(id(i['node']), 0)
            if len(by_id[id(i['node'])]) > 1:
                # one object reachable through several slots (e.g. Exists.query and Exists.args[0]): judged once, through its first path
                if path != by_id[id(i['node'])][0]:
                    continue
            if i['required'] and n == 0:
                if any(path[:k] in info and info[path[:k]]['required'] and count.get(id(info[path[:k]]['node']), 0) == 0 for k in range(len(path))):
                    continue   # an enclosing node is already reported as unvisited
                if any(path[:k] in info and not info[path[:k]]['required'] and count.get(id(info[path[:k]]['node']), 0) == 0
                       and info[path[:k]].get('reason') not in ('cte-entry', 'orderby-wrapper') for k in range(1, len(path))):
                    continue   # lives below a tolerated, unvisited node (alias, USING option ...)
                res.violation(f'not-visited|{slot(root, path) if path else "root"}|{type(i["node"]).__name__ if isinstance(i["node"], (A.Select, A.Union)) else "expr"}',
                              f'{text!r}: node {str(i["node"])[:60]!r} at {reflect.path_str(path)} is never visited')
            elif n > 1:
                res.violation(f'visited-twice|{slot(root, path) if path else "root"}', f'{text!r}: node at {reflect.path_str(path)} visited {n} times')
        known_ids = set(by_id)
        for node, _, _ in visits:
            if id(node) not in known_ids and isinstance(node, ASTNode):
                res.violation(f'visits-foreign-node|{type(node).__name__}', f'{text!r}: callback received a node that is not part of the tree: {node!r}')
            elif node is None:
                res.count('visitor_called_with_None_for_an_absent_slot')     # tolerated: no node is missed or visited twice by it
            elif not isinstance(node, ASTNode) and type(node).__name__ != 'TableColumn':
                # the visitor is for tables, expressions and nested queries: a raw python value (the text inside an INTERVAL,
                # a list, None ...) is none of them
                res.violation(f'visits-a-non-node|{type(node).__name__}', f'{text!r}: callback received {node!r} ({type(node).__name__}), which is not a node of the statement')
        # (2) order: numbered leaves increasing; ancestors before descendants
        seq = []
        pos = {}
        for k, (node, _, _) in enumerate(visits):
            if id(node) in by_id and id(node) not in pos:
                pos[id(node)] = k
        last = None
        for node, _, _ in visits:
            if id(node) not in by_id:
                continue
            n = leaf_number(node)
            if n is None:
                continue
            p = by_id[id(node)][0]
            if not info[p]['required']:
                continue
            if last is not None and n < last[0]:
                a, b = last[1], p
                k = 0
                while k < min(len(a), len(b)) and a[k] == b[k]:
                    k += 1
                anc = a[:k]
                lca = reflect.get_at(root, anc)
                fa = next((s for s in a[len(anc):] if isinstance(s, str)), None)
                fb = next((s for s in b[len(anc):] if isinstance(s, str)), None)
                if isinstance(lca, (list, tuple, dict)):
                    o2, f2 = reflect.owner(root, anc)
                    res.violation(f'order|{type(o2).__name__}.{f2}[]', f'{text!r}: leaf #{last[0]} visited before leaf #{n} (same list {reflect.path_str(anc)})')
                else:
                    res.violation(f'order|{type(lca).__name__}|{fa}-before-{fb}', f'{text!r}: leaf #{last[0]} ({reflect.path_str(a)}) is visited before leaf #{n} ({reflect.path_str(b)})')
                break
            last = (n, p)
        for path, i in info.items():
            if id(i['node']) not in pos or len(by_id[id(i['node'])]) > 1:
                continue
            for k in range(len(path) - 1, -1, -1):
                anc = path[:k]
                if anc in info and id(info[anc]['node']) in pos and pos[id(info[anc]['node'])] > pos[id(i['node'])]:
                    res.violation(f'child-before-parent|{slot(root, path)}', f'{text!r}: {reflect.path_str(path)} visited before its ancestor {reflect.path_str(anc)}')
                    break
        # (3) flags
        for node, is_table, is_target in visits:
            if id(node) not in by_id or len(by_id[id(node)]) > 1:
                continue
            p = by_id[id(node)][0]
            i = info[p]
            if bool(is_table) != i['table']:
                res.violation(f'is_table-flag|{slot(root, p) if p else "root"}|got={bool(is_table)}', f'{text!r}: node at {reflect.path_str(p)} flagged is_table={is_table}')
            if bool(is_target) != i['target']:
                res.violation(f'is_target-flag|{slot(root, p) if p else "root"}|got={bool(is_target)}', f'{text!r}: node at {reflect.path_str(p)} flagged is_target={is_target}')
        # (4) replacement of exactly the visited node
        nvis = len(visits)
        vis_paths = [by_id.get(id(n), [None])[0] for n, _, _ in visits]
        for k in range(nvis):
            p = vis_paths[k]
            if p is None or p == ():
                continue
            aliases = by_id[id(visits[k][0])]     # every slot through which this very object is reachable: all must receive the replacement
            tree = copy.deepcopy(root)
            # the returned node rotates through kinds that container code may take for "nothing" (empty tuple, 0, '', NULL)
            marker = (A.Identifier('__marker__'), A.Tuple(items=[]), A.Constant(0), A.Constant(''), A.NullConstant())[k % 5]
            cnt = [0]
            below = set()
            later = []

            def cb2(node, **kw):
                cnt[0] += 1
                if cnt[0] == k + 1:
                    below.update(id(x) for x, _ in reflect.walk(node, want=lambda o: isinstance(o, ASTNode)) if x is not node)
                    return marker
                if cnt[0] > k + 1:
                    later.append(node)
                return None

            try:
                query_traversal(tree, cb2)
            except Exception as e:
                res.violation(f'replace-crash|{slot(root, p)}|{exc_sig(e)}', f'{text!r}: replacing node at {reflect.path_str(p)} raised {e!r}')
                continue
            res.count('replacements')
            if any(id(x) in below for x in later):
                res.violation(f'walks-below-a-replaced-node|{slot(root, p)}', f'{text!r}: after a node was returned for {reflect.path_str(p)} the visitor was still called for nodes of the replaced sub-tree')
            if below:
                # the visitor hands back the very node it was given ("this sub-tree is final"): nothing changes and nothing below it is offered
                tree2 = copy.deepcopy(root)
                cnt2, below2, later2 = [0], set(), []

                def cb3(node, **kw):
                    cnt2[0] += 1
                    if cnt2[0] == k + 1:
                        below2.update(id(x) for x, _ in reflect.walk(node, want=lambda o: isinstance(o, ASTNode)) if x is not node)
                        return node
                    if cnt2[0] > k + 1:
                        later2.append(node)
                    return None

                try:
                    query_traversal(tree2, cb3)
                    res.count('self_replacements')
                    if any(id(x) in below2 for x in later2):
                        res.violation(f'walks-below-a-node-returned-as-itself|{slot(root, p)}', f'{text!r}: the visitor returned the node at {reflect.path_str(p)} itself and was still called for nodes below it')
                    elif reflect.fingerprint(tree2) != before:
                        res.violation(f'self-replacement-changes-tree|{slot(root, p)}', f'{text!r}: returning the node at {reflect.path_str(p)} itself changed the tree')
                except Exception as e:
                    res.violation(f'replace-crash|{slot(root, p)}|{exc_sig(e)}', f'{text!r}: returning the node at {reflect.path_str(p)} itself raised {e!r}')
            try:
                ats = [reflect.get_at(tree, q) for q in aliases]
            except Exception:
                ats = [None]
            at = next((x for x in ats if x is not marker), marker)
            ok = all(x is marker for x in ats)
            if ok:
                orig = copy.deepcopy(reflect.get_at(root, p))
                for q in aliases:
                    reflect.set_at(tree, q, orig)
                ok = reflect.fingerprint(tree) == before
            if not ok:
                res.violation(f'replacement-slot|{slot(root, p)}', f'{text!r}: returning a node for {reflect.path_str(p)} did not replace exactly that node (found {str(at)[:50]!r} there)')
        return res

    def coverage(self, agg):
        return {'exhaustive': True, 'slots_exercised': sorted(agg['cover'].get('slots', ())),
                'rule': 'every accepted S0 sentence (edge + production-pair + production-triple cover, 3 dialects) rooted in a query/DML/CREATE TABLE statement, numbered lexemes, '
                        '+ 14 hand-kept shapes; for each tree one observing traversal and one replacing traversal per visited node (plus one in which the visitor returns the node itself, for nodes with children; the visitor must not be called below a returned node); '
                        'distinct_nontrivial = distinct tree fingerprints'}

    def describe_case(self, case):
        return {'dialect': case[0], 'text': case[1]}

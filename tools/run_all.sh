#!/bin/bash
# usage: tools/run_all.sh quick|thorough [ids...]   -- runs checks sequentially, one summary line each
tier=${1:-quick}; shift
ids=${@:-C01 C02 C03 C04 C05 C06 C07 C08 C09 C10 C11 C12 C13 C14 C15 C16 C17 C18 C19 C20}
cd "$(dirname "$0")/.."
mkdir -p logs
for c in $ids; do
  s=$(date +%s)
  ./check $c --tier $tier > logs/${tier}_$c.log 2>&1; rc=$?
  e=$(date +%s)
  echo "$c tier=$tier rc=$rc t=$((e-s))s viol=$(grep -c '^VIOLATION' logs/${tier}_$c.log) known=$(grep -c '^KNOWN-FINDING' logs/${tier}_$c.log)"
done

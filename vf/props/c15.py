"""C15 - a time-series model receives exactly its context window plus the selected rows.

Full product of time conditions x thresholds x partition filters x window sizes x 0..2 group-by
columns x model side x LIMIT, plus the rejected shapes; x ALL table contents with <= 3 (thorough 4)
rows over {partition a, b} x {time NULL, 1, 2, 3, 4}.  PLANX interprets the plan up to the
ApplyTimeseriesPredictorStep and the dataframe handed to the model is compared with the
specification computed directly from the table (ties at the bound: any maximal choice accepted).
"""
import collections
import copy
import itertools
import sqlite3

from mindsdb_sql.exceptions import PlanningException
from mindsdb_sql.parser import ast as A
from mindsdb_sql.planner import plan_query, steps as S

from vf import parsing, planx, predq, reflect, sqlref
from vf.runner import Check, Result, exc_sig

CAND = [(g, ts) for g in ('a', 'b') for ts in (None, 1, 2, 3, 4)]
CONDS = [('none', None), ('gt', '>'), ('ge', '>='), ('eq', '='), ('lt', '<'), ('le', '<='), ('between', 'between'), ('gt_latest', '> LATEST'), ('eq_latest', '= LATEST')]
PARTS = [('none', None), ('eq', "t.g = 'a'"), ('in', "t.g IN ('a', 'b')"), ('two', "t.g = 'a' AND t.h = 'x'")]
# arrangements of the conjuncts of WHERE (T = time condition, P / Q = partition filters): order, nesting and parentheses of the AND tree
LAYOUTS = [('time_first', '{T} AND {P}'), ('part_first', '{P} AND {T}'), ('time_in_parens', '{P} AND ({T})'), ('all_in_parens', '({T} AND {P})'),
           ('right_nested', '{P} AND ({Q} AND {T})'), ('right_nested_time_first', '{P} AND ({T} AND {Q})'), ('time_middle', '{P} AND {T} AND {Q}'),
           ('left_nested_parens', '(({P} AND {T}) AND {Q})'), ('deep_right', '{P} AND ({Q} AND ({T}))')]
REJECTED = [('order_by', ' ORDER BY t.ts'), ('group_by', ' GROUP BY t.g'), ('having', ' GROUP BY t.g HAVING count(*) > 1'), ('offset', ' LIMIT 2 OFFSET 1'),
            ('other_column', None), ('two_time_filters', None),
            # a filter on another column, hidden in a function call / arithmetic / on the right-hand side / under NOT / in a list
            ('other_column_func', 'abs(t.v) > 5'), ('other_column_coalesce', 'coalesce(t.v, 0) = 1'), ('other_column_rhs', "t.g = upper(t.h)"),
            ('other_column_arith', 't.v + 1 > 5'), ('other_column_not', 'NOT t.v = 1'), ('other_column_in', 't.v IN (1, 2)'), ('other_column_between', 't.v BETWEEN 1 AND 2'),
            ('other_column_isnull', 't.v IS NULL'), ('other_column_const_first', '1 = t.v'), ('other_column_or_time', 't.v = 1 OR t.ts > 2')]


INNER_REJECTED = [' ORDER BY t.ts', ' ORDER BY t.ts DESC', ' GROUP BY t.g', ' GROUP BY t.g HAVING count(*) > 1', ' LIMIT 2 OFFSET 1', ' AND t.v = 1', ' AND abs(t.v) > 1',
                  ' ORDER BY t.v', ' GROUP BY t.g, t.h', ' LIMIT 5 OFFSET 0']


def hval(g, ts):
    return 'x' if (ts is None or ts % 2) else 'y'


def contents(maxrows):
    out = []
    for k in range(0, maxrows + 1):
        for combo in itertools.combinations_with_replacement(range(len(CAND)), k):
            rows = []
            for v, i in enumerate(combo):
                g, ts = CAND[i]
                rows.append((g, hval(g, ts), ts, v + 1))
            out.append(rows)
    return out


def cond_sql(cl, thr):
    if cl == 'none':
        return None
    if cl == 'between':
        return f't.ts BETWEEN {thr} AND 4'
    if cl in ('gt_latest', 'eq_latest'):
        return 't.ts ' + dict(CONDS)[cl]
    return f't.ts {dict(CONDS)[cl]} {thr}'


def build(cl, thr, pl, window, ng, side, lim, rej=None, layout=None):
    conds = [c for c in (cond_sql(cl, thr), dict(PARTS)[pl]) if c]
    if layout is not None:
        T = cond_sql(cl, thr)
        P, Q = ("t.g = 'a'", "t.h = 'x'") if pl == 'two' else (dict(PARTS)[pl], None)
        tpl = dict(LAYOUTS)[layout]
        if T is None or P is None or ('{Q}' in tpl) != (Q is not None):
            return None
        conds = [tpl.format(T=T, P=P, Q=Q)]
    tail = ''
    if rej == 'other_column':
        conds.append('t.v = 1')
    elif rej == 'two_time_filters':
        conds.append('t.ts < 9')
    elif rej and rej.startswith('other_column_'):
        conds.append(dict(REJECTED)[rej])
    elif rej:
        tail = dict(REJECTED)[rej]
    frm = 'int1.tt AS t JOIN mindsdb.tp' if side == 'right' else 'mindsdb.tp JOIN int1.tt AS t'
    sql = f'SELECT * FROM {frm}' + (' WHERE ' + ' AND '.join(conds) if conds else '') + tail + (f' LIMIT {lim}' if lim and rej != 'offset' else '')
    return sql


def expected(rows, cl, thr, pl, window, ng):
    """-> (must: Counter of rows that must be present, optional groups: list of (candidate rows Pre, k))"""
    rows = [r for r in rows if r[2] is not None]
    if pl == 'eq':
        rows = [r for r in rows if r[0] == 'a']
    elif pl == 'in':
        rows = [r for r in rows if r[0] in ('a', 'b')]
    elif pl == 'two':
        rows = [r for r in rows if r[0] == 'a' and r[1] == 'x']
    keyf = (lambda r: ()) if ng == 0 else (lambda r: (r[0],)) if ng == 1 else (lambda r: (r[0], r[1]))
    parts = collections.defaultdict(list)
    for r in rows:
        parts[keyf(r)].append(r)
    must = collections.Counter()
    opt = []
    for key, prs in parts.items():
        if cl == 'none':
            sel, pre = prs, []
        elif cl == 'gt':
            sel, pre = [r for r in prs if r[2] > thr], [r for r in prs if r[2] <= thr]
        elif cl == 'ge':
            sel, pre = [r for r in prs if r[2] >= thr], [r for r in prs if r[2] < thr]
        elif cl == 'eq':
            sel, pre = [], [r for r in prs if r[2] <= thr]
        elif cl == 'lt':
            sel, pre = [r for r in prs if r[2] < thr], []
        elif cl == 'le':
            sel, pre = [r for r in prs if r[2] <= thr], []
        elif cl == 'between':
            sel, pre = [r for r in prs if thr <= r[2] <= 4], [r for r in prs if r[2] < thr]
        elif cl in ('gt_latest', 'eq_latest'):
            sel, pre = [], prs
        must.update(sel)
        if pre:
            opt.append((pre, min(window, len(pre))))
    return must, opt


def judge(got, must, opt):
    """got: list of row tuples (g, h, ts, v)"""
    cg = collections.Counter(got)
    for r, c in must.items():
        if cg.get(r, 0) != c:
            return False, f'selected row {r} occurs {cg.get(r, 0)}x, expected {c}x'
    rest = cg - must
    for pre, k in opt:
        cp = collections.Counter(pre)
        mine = collections.Counter({r: c for r, c in rest.items() if r in cp})
        rest = rest - mine
        if sum(mine.values()) != k:
            return False, f'context window has {sum(mine.values())} rows from a partition with {len(pre)} earlier rows, expected {k}'
        if any(mine[r] > cp[r] for r in mine):
            return False, 'a context row is duplicated'
        if mine:
            lo = min(r[2] for r in mine.elements())
            for r in (cp - mine).elements():
                if r[2] > lo:
                    return False, f'context window skips the more recent row {r} but contains a row with time {lo}'
    if rest:
        return False, f'unexpected rows {sorted(rest.elements(), key=str)[:4]}'
    return True, ''


class CHECK(Check):
    pid = 'C15'
    level = 'exploration'
    case_timeout = 900      # one case = one statement / plan on every database of the tier
    assumptions = ['sqlite is the engine the per-partition fetches run on; MultipleSteps / MapReduceStep reduce by concatenation (union of the sub-results)',
                   'ties at the window boundary: any maximal choice of the most recent rows is accepted',
                   'for `<` / `<=` conditions there is no lower bound, hence no context window']

    def setup(self, tier, seed):
        self.tier, self.seed = tier, seed
        self.dbs = contents(4 if tier == 'thorough' else 3)
        self.cons = None

    def cases(self):
        out = []
        thrs = (2, 3) if self.tier == 'thorough' else (2,)
        for (cl, _), thr, (pl, _), window, ng, side, lim in itertools.product(CONDS, thrs, PARTS, (1, 2), (0, 1, 2), ('right', 'left'), (None, 1)):
            if (pl != 'none' and ng == 0) or (pl == 'two' and ng != 2):
                continue
            if cl in ('none', 'gt_latest', 'eq_latest') and thr != thrs[0]:
                continue
            out.append(('ok', cl, thr, pl, window, ng, side, lim, None))
        # boundary windows: no context rows at all (0) and more than any table holds (5)
        for (cl, _), (pl, _), window, ng in itertools.product(CONDS, PARTS, (0, 5), (0, 1)):
            if (pl != 'none' and ng == 0) or pl == 'two':
                continue
            out.append(('ok', cl, thrs[0], pl, window, ng, 'right', None, None))
        # the statement planned a second time by the same QueryPlanner object: the second plan is the one judged
        for (cl, _), (pl, _), ng in itertools.product(CONDS, PARTS, (0, 1, 2)):
            if (pl != 'none' and ng == 0) or (pl == 'two' and ng != 2):
                continue
            out.append(('ok_reuse', cl, thrs[0], pl, 2, ng, 'right', None, None))
        # the same conjuncts arranged as other AND trees (order, nesting, parentheses)
        for (cl, _), (pl, _), (layout, _), ng in itertools.product(CONDS, PARTS, LAYOUTS, (1, 2)):
            if (pl == 'two' and ng != 2) or build(cl, thrs[0], pl, 2, ng, 'right', None, None, layout) is None:
                continue
            for window in (1, 2):
                out.append(('ok_layout:' + layout, cl, thrs[0], pl, window, ng, 'right', None, None))
        # clauses the planner has to refuse, written inside a data sub-select (the dbt shape)
        for clause in INNER_REJECTED:
            for alias in ('t', 'q'):
                for ng in (0, 1):
                    out.append(('rejected_inner', clause, alias, 'none', 2, ng, 'right', None, None))
        # the order / partition columns spelled with capitals in the statement (the model metadata keeps lower case)
        for (cl, _), (pl, _), ng, side in itertools.product(CONDS, PARTS, (0, 1), ('right', 'left')):
            if (pl != 'none' and ng == 0) or pl == 'two':
                continue
            out.append(('ok_upper', cl, thrs[0], pl, 2, ng, side, None, None))
        # the data side is a sub-select with a LIMIT of its own (the shape dbt generates) and the statement has a LIMIT too
        for inner, outer in itertools.product((None, 1, 3, 7), (None, 1, 3, 7)):
            for ng in (0, 1):
                out.append(('dbt', 'gt', inner, 'none', 2, ng, 'right', outer, None))
        for rej, _ in REJECTED:
            for (cl, _), ng, side in itertools.product(CONDS, (0, 1), ('right', 'left')):
                if rej == 'two_time_filters' and cl == 'none':
                    continue
                out.append(('rejected', cl, 2, 'none', 2, ng, side, None, rej))
        return out

    def run_dbt(self, res, case):
        kind, cl, inner, pl, window, ng, side, outer, rej = case
        sub = 'SELECT * FROM int1.tt WHERE ts > 2' + (f' LIMIT {inner}' if inner else '')
        sql = f'SELECT * FROM ({sub}) AS t JOIN mindsdb.tp' + (f' LIMIT {outer}' if outer else '')
        res.key(case)
        out = parsing.outcome(sql, 'mindsdb')
        if out.kind != 'ok':
            res.count('dbt_not_parsed')
            return res
        try:
            plan = plan_query(out.value, **predq.ts_catalog(window, ng))
        except (PlanningException, NotImplementedError):
            res.count('dbt_declared_unsupported')
            return res
        except Exception:
            res.count('internal_error_(C09)')
            return res
        res.count('dbt_plans')
        steps = plan.steps
        ai = [i for i, s in enumerate(steps) if isinstance(s, S.ApplyTimeseriesPredictorStep)]
        lims = [(i, s) for i, s in enumerate(steps) if isinstance(s, S.LimitOffsetStep)]
        if outer is not None:
            # the requested LIMIT is applied after the join: a limit step after the model, letting through at most `outer` rows
            after = [s for i, s in lims if ai and i > ai[0]]
            vals = [getattr(s.limit, 'value', s.limit) for s in after]
            if not after or min(v for v in vals if v is not None) > outer:
                res.violation(f'statement-limit-not-applied-after-join|dbt|inner={"none" if inner is None else "set"}',
                              f'{sql!r}: limit steps after the model: {vals}; the statement asks for LIMIT {outer}\n    {steps}')
        return res

    def run_rejected_inner(self, res, case):
        kind, clause, alias, pl, window, ng, side, lim, rej = case
        sql = f'SELECT * FROM (SELECT * FROM int1.tt AS t WHERE t.ts > 2{clause}) AS {alias} JOIN mindsdb.tp'
        res.key(case)
        out = parsing.outcome(sql, 'mindsdb')
        if out.kind != 'ok':
            res.count('inner_clause_not_parsed')
            return res
        try:
            plan = plan_query(out.value, **predq.ts_catalog(window, ng))
        except PlanningException:
            res.count('rejected_as_required')
            return res
        except NotImplementedError:
            res.count('not_implemented')
            return res
        except Exception:
            res.count('internal_error_(C09)')
            return res
        # planned: the clause must then really be carried out by some step (it may not be dropped silently)
        word = clause.split()[0] + (' ' + clause.split()[1] if clause.split()[0] in ('ORDER', 'GROUP') else '')
        kept = any(word.lower() in str(getattr(st, 'query', '') or '').lower().replace('order by ts', '') for st in plan.steps) if word != 'AND' else any('v' in [str(i.parts[-1]) for i, _ in reflect.walk(getattr(st, 'query', None), want=lambda o: isinstance(o, A.Identifier))] for st in plan.steps)
        if not kept:
            res.violation(f'unsupported-clause-in-data-sub-select-dropped|{clause.split()[0]}|groups={ng}', f'{sql!r} [groups={ng}] is planned and the clause{clause!r} is in no step: {plan.steps}')
        return res

    def ensure(self):
        if self.cons is None:
            self.cons = []
            for rows in self.dbs:
                con = sqlite3.connect(':memory:')
                con.execute("ATTACH ':memory:' AS int1")
                con.execute('CREATE TABLE int1.tt (g, h, ts, v)')
                if rows:
                    con.executemany('INSERT INTO int1.tt VALUES (?, ?, ?, ?)', rows)
                con.commit()
                self.cons.append(con)

    def run(self, case):
        res = Result()
        kind, cl, thr, pl, window, ng, side, lim, rej = case
        if kind == 'dbt':
            return self.run_dbt(res, case)
        if kind == 'rejected_inner':
            return self.run_rejected_inner(res, case)
        layout = kind.split(':')[1] if kind.startswith('ok_layout:') else None
        sql = build(cl, thr, pl, window, ng, side, lim, rej, layout)
        if kind == 'ok_upper':
            sql = sql.replace('t.ts', 't.TS').replace('t.g', 't.G')
        res.key(case)
        out = parsing.outcome(sql, 'mindsdb')
        if out.kind != 'ok':
            res.violation(f'query-not-parsed|{cl}', f'{sql!r}: {str(out.exc)[:100]}')
            return res
        user_cond = None
        if cl != 'none':
            w = parsing.outcome(sql, 'mindsdb').value.where
            stack = [w]
            while stack:
                n = stack.pop()
                if isinstance(n, A.BinaryOperation) and n.op == 'and':
                    stack.extend(n.args)
                elif n is not None and any(isinstance(x, A.Identifier) and str(x.parts[-1]).lower() == 'ts' for x in n.args):
                    user_cond = n
        sig = f'{cl}|groups={ng}'
        try:
            if kind == 'ok_reuse':
                from mindsdb_sql.planner.query_planner import QueryPlanner
                planner = QueryPlanner(**predq.ts_catalog(window, ng))
                planner.from_query(parsing.outcome(sql, 'mindsdb').value)
                plan = planner.from_query(out.value)
            else:
                plan = plan_query(out.value, **predq.ts_catalog(window, ng))
        except PlanningException as e:
            if kind == 'rejected':
                res.count('rejected_as_required')
            else:
                res.violation(f'valid-query-rejected|{sig}', f'{sql!r} [window={window}, groups={ng}]: {e}')
            return res
        except NotImplementedError as e:
            res.count('not_implemented')
            return res
        except Exception as e:
            res.count('internal_error_(C09)')
            return res
        if kind == 'rejected':
            res.violation(f'unsupported-shape-not-rejected|{rej}|groups={ng}', f'{sql!r} [window={window}, groups={ng}] is planned: {plan.steps}')
            return res
        res.count('plans')
        steps = plan.steps
        apply_idx = [i for i, s in enumerate(steps) if isinstance(s, S.ApplyTimeseriesPredictorStep)]
        if len(apply_idx) != 1:
            res.violation(f'apply-step-count|{sig}', f'{sql!r}: {steps}')
            return res
        ai = apply_idx[0]
        ap = steps[ai]
        # output filter
        otf = ap.output_time_filter
        if (otf is None) != (user_cond is None) or (otf is not None and reflect.fingerprint(strip_alias(otf)) != reflect.fingerprint(strip_alias(user_cond))):
            res.violation(f'output-time-filter-differs|{cl}', f'{sql!r}: output_time_filter {str(otf)!r}, user condition {str(user_cond) if user_cond is not None else None!r}')
        # limit after the join
        lims = [s for s in steps if isinstance(s, S.LimitOffsetStep)]
        joins = [i for i, s in enumerate(steps) if isinstance(s, S.JoinStep)]
        if lim:
            ok = len(lims) == 1 and joins and steps.index(lims[0]) > joins[-1] and (lims[0].limit.value if isinstance(lims[0].limit, A.Constant) else lims[0].limit) == lim
            if not ok:
                res.violation(f'limit-not-applied-after-join|{sig}', f'{sql!r}: {steps}')
        elif lims:
            res.violation(f'limit-invented|{sig}', f'{sql!r}: {steps}')
        # dataframe handed to the model
        self.ensure()
        for con, rows in zip(self.cons, self.dbs):
            it = planx.Interp(con)
            try:
                for i, st in enumerate(steps[:ai]):
                    fr = it.run_step(st, f'step {i} ({type(st).__name__})')
                    it.results[st.step_num if st.step_num is not None else i] = fr
                fr = it.frame_of(ap.dataframe, 'apply')
                names = [c.name.lower() for c in fr.cols]
                raw = it.rows(fr)
                err = None
            except planx.PlanExecError as e:
                err = e
            finally:
                it.cleanup()
            res.count('interpretations')
            if err is not None:
                res.violation(f'step-cannot-be-carried-out|{sig}', f'{sql!r} [window={window}, groups={ng}] on {rows}: {err}\n    {steps}')
                return res
            try:
                idx = [names.index(c) for c in ('g', 'h', 'ts', 'v')]
            except ValueError:
                res.violation(f'model-input-lacks-table-columns|{sig}', f'{sql!r}: columns {names}')
                return res
            got = [tuple(r[i] for i in idx) for r in raw]
            must, opt = expected(rows, cl, thr, pl, window, ng)
            ok, why = judge(got, must, opt)
            if not ok:
                res.violation(f'model-input-rows|{sig}|window={window}', f'{sql!r} [window={window}, groups={ng}] on table {rows}: {why}; model receives {sorted(got, key=str)}\n    ' + ' ; '.join(f'{w}: {s}' for w, _, s in it.trace[-6:]))
                return res
        return res

    def coverage(self, agg):
        return {'exhaustive': True, 'table_contents': len(self.dbs), 'conditions': [c[0] for c in CONDS], 'partition_filters': [p[0] for p in PARTS],
                'rejected_shapes': [r[0] for r in REJECTED],
                'rule': 'full product condition x threshold x partition filter x window {1,2} x group columns {0,1,2} x model side x LIMIT, + boundary windows 0 and 5, + the second plan of each statement on a reused QueryPlanner, + 9 arrangements of the WHERE conjuncts as AND trees, + rejected shapes (also inside a data sub-select); every plan '
                        'interpreted on every table content with <= 3 (thorough 4) rows over 2 partitions x 5 time values; distinct_nontrivial = distinct cases'}

    def describe_case(self, case):
        kind, cl, thr, pl, window, ng, side, lim, rej = case
        if kind == 'dbt':
            return {'kind': kind, 'inner_limit': thr, 'outer_limit': lim, 'group_columns': ng}
        if kind == 'rejected_inner':
            return {'kind': kind, 'sql': f'SELECT * FROM (SELECT * FROM int1.tt AS t WHERE t.ts > 2{cl}) AS {thr} JOIN mindsdb.tp', 'group_columns': ng}
        sql = build(cl, thr, pl, window, ng, side, lim, rej, kind.split(':')[1] if kind.startswith('ok_layout:') else None)
        if kind == 'ok_upper':
            sql = sql.replace('t.ts', 't.TS').replace('t.g', 't.G')
        return {'kind': kind, 'sql': sql, 'window': window, 'group_columns': ng}


def strip_alias(node):
    n = copy.deepcopy(node)
    for idn, _ in reflect.walk(n, want=lambda o: isinstance(o, A.Identifier)):
        idn.parts = [idn.parts[-1]]
    return n

"""C03 - operators group by standard SQL precedence and associativity, user parentheses are kept.

All operator trees with <= n operator nodes over the listed operators, printed with minimal
parentheses for the standard order (a comparison/predicate operand of a comparison/predicate is
always parenthesised, as the property excludes the bare form), x 3 dialects x 6 expression contexts,
plus every single redundant pair of parentheses.  Oracle: the parsed expression equals the generating
tree node for node, `parentheses` exactly where the text has them; cross-checked semantically with
sqlite (minimal text == fully parenthesised text == my print of the parsed tree, over {NULL,0,1,2}).
"""
import itertools
import sqlite3

from mindsdb_sql.parser import ast as A

from vf import gsx, parsing
from vf.runner import Check, Result

# level: higher binds tighter
UNARY = {'neg': ('-', 6), 'not': ('NOT', 2)}
POSTFIX = {'isnull': ('IS NULL', 3), 'isnotnull': ('IS NOT NULL', 3)}
BINARY = {}
for _op in ('*', '/', '%'):
    BINARY[_op] = 5
for _op in ('+', '-'):
    BINARY[_op] = 4
for _op in ('=', '!=', '<>', '<', '<=', '>', '>=', 'LIKE', 'NOT LIKE'):
    BINARY[_op] = 3
BINARY['AND'] = 1
BINARY['OR'] = 0
INOPS = ('IN', 'NOT IN')
CLASS = {'neg': 'uminus', '*': 'mul', '/': 'mul', '%': 'mul', '+': 'add', '-': 'add', 'not': 'not', 'AND': 'and', 'OR': 'or',
         'between': 'pred', 'isnull': 'pred', 'isnotnull': 'pred', 'IN': 'pred', 'NOT IN': 'pred', 'LIKE': 'pred', 'NOT LIKE': 'pred'}
for _op in ('=', '!=', '<>', '<', '<=', '>', '>='):
    CLASS[_op] = 'cmp'

REPS = ['neg', 'not', 'isnull', '*', '%', '+', '-', '=', '<', 'LIKE', 'IN', 'between', 'AND', 'OR']
ALL_OPS = ['neg', 'not', 'isnull', 'isnotnull'] + list(BINARY) + list(INOPS) + ['between']

CONTEXTS = {
    'select': 'select {e}',
    'where': 'select x from t where {e}',
    'on': 'select x from t join u on {e}',
    'having': 'select x from t group by x having {e}',
    'farg': 'select f({e})',
    'case': 'select case when {e} then 1 else 2 end',
}


def level(t):
    k = t[0]
    if k == 'leaf':
        return 9
    if k in UNARY:
        return UNARY[k][1]
    if k in POSTFIX or k in INOPS or k == 'between':
        return 3
    return BINARY[k]


def trees(n, ops, leaves):
    """all trees with exactly n operator nodes; leaves are taken in order from the iterator-like counter"""
    if n == 0:
        yield ('leaf',)
        return
    for op in ops:
        if op in UNARY or op in POSTFIX:
            for x in trees(n - 1, ops, leaves):
                yield (op, x)
        elif op in INOPS:
            for x in trees(n - 1, ops, leaves):
                yield (op, x)
        elif op == 'between':
            for i in range(n):
                for j in range(n - i):
                    k = n - 1 - i - j
                    if k < 0:
                        continue
                    for x in trees(i, ops, leaves):
                        for lo in trees(j, ops, leaves):
                            for hi in trees(k, ops, leaves):
                                yield (op, x, lo, hi)
        else:
            for i in range(n):
                for l in trees(i, ops, leaves):
                    for r in trees(n - 1 - i, ops, leaves):
                        yield (op, l, r)


def label(t, names):
    """assign leaf names in textual order"""
    k = t[0]
    if k == 'leaf':
        return ('leaf', next(names))
    if k in INOPS:
        x = label(t[1], names)
        return (k, x, ('leaf', next(names)), ('leaf', next(names)))
    return (k,) + tuple(label(c, names) for c in t[1:])


def child_req(t):
    """minimum level each child needs to appear without parentheses"""
    k = t[0]
    if k in UNARY:
        return [UNARY[k][1]]
    if k in POSTFIX:
        return [4]
    if k in INOPS:
        return [4, 0, 0]
    if k == 'between':
        return [4, 4, 4]
    lv = BINARY[k]
    if lv == 3:
        return [4, 4]
    return [lv, lv + 1]


def show(t, paren_paths=(), path=(), full=False, marks=None):
    """text of tree; paren_paths = paths of nodes given an extra (redundant) pair of parentheses.
    marks collects the paths that end up parenthesised in the text."""
    k = t[0]
    if k == 'leaf':
        s = t[1]
    else:
        req = child_req(t)
        parts = []
        for i, c in enumerate(t[1:]):
            cs = show(c, paren_paths, path + (i,), full, marks)
            need = level(c) < req[i] or (full and c[0] != 'leaf')
            if k in INOPS and i > 0:
                need = False
            if need and not (path + (i,)) in paren_paths:
                cs = f'({cs})'
                if marks is not None:
                    marks.add(path + (i,))
            parts.append(cs)
        if k in UNARY:
            s = f'{UNARY[k][0]} {parts[0]}'
        elif k in POSTFIX:
            s = f'{parts[0]} {POSTFIX[k][0]}'
        elif k in INOPS:
            s = f'{parts[0]} {k} ({parts[1]}, {parts[2]})'
        elif k == 'between':
            s = f'{parts[0]} BETWEEN {parts[1]} AND {parts[2]}'
        else:
            s = f'{parts[0]} {k} {parts[1]}'
    if path in paren_paths:
        s = f'({s})'
        if marks is not None:
            marks.add(path)
    return s


def expected_norm(t, marks, path=()):
    k = t[0]
    p = path in marks
    if k == 'leaf':
        return ('id', t[1], p)
    if k == 'neg':
        return ('un', '-', expected_norm(t[1], marks, path + (0,)), p)
    if k == 'not':
        return ('un', 'not', expected_norm(t[1], marks, path + (0,)), p)
    if k == 'isnull':
        return ('bin', 'is', expected_norm(t[1], marks, path + (0,)), ('null',), p)
    if k == 'isnotnull':
        return ('bin', 'is not', expected_norm(t[1], marks, path + (0,)), ('null',), p)
    if k in INOPS:
        return ('bin', k.lower(), expected_norm(t[1], marks, path + (0,)),
                ('tuple', expected_norm(t[2], marks, path + (1,)), expected_norm(t[3], marks, path + (2,))), p)
    if k == 'between':
        return ('between',) + tuple(expected_norm(c, marks, path + (i,)) for i, c in enumerate(t[1:])) + (p,)
    return ('bin', k.lower(), expected_norm(t[1], marks, path + (0,)), expected_norm(t[2], marks, path + (1,)), p)


def ast_norm(n):
    p = bool(getattr(n, 'parentheses', False))
    if isinstance(n, A.Identifier):
        return ('id', '.'.join(str(x) for x in n.parts), p)
    if isinstance(n, A.NullConstant):
        return ('null',)
    if isinstance(n, A.Constant):
        return ('const', n.value, p)
    if isinstance(n, A.BetweenOperation):
        return ('between',) + tuple(ast_norm(a) for a in n.args) + (p,)
    if isinstance(n, A.UnaryOperation):
        return ('un', ' '.join(str(n.op).lower().split()), ast_norm(n.args[0]), p)
    if isinstance(n, A.BinaryOperation):
        return ('bin', ' '.join(str(n.op).lower().split()), ast_norm(n.args[0]), ast_norm(n.args[1]), p)
    if isinstance(n, A.Tuple):
        return ('tuple',) + tuple(ast_norm(a) for a in n.items)
    return ('other', type(n).__name__, str(n))


def norm_class(x):
    if x[0] == 'bin':
        op = x[1]
        return CLASS.get(op.upper(), CLASS.get(op, op))
    if x[0] == 'un':
        return 'uminus' if x[1] == '-' else 'not'
    if x[0] == 'between':
        return 'pred'
    return x[0]


def first_mismatch(e, g):
    """(expected class, got class, kind) of the first differing node (pre-order)"""
    if e == g:
        return None
    if e[0] != g[0] or (e[0] in ('bin', 'un') and e[1] != g[1]):
        return (norm_class(e), norm_class(g), 'structure')
    if e[0] in ('id', 'const', 'null', 'other'):
        if e[:-1] == g[:-1]:
            return (norm_class(e), norm_class(g), 'parentheses-flag')
        return (norm_class(e), norm_class(g), 'leaf')
    kids_e = [c for c in e[1:] if isinstance(c, tuple)]
    kids_g = [c for c in g[1:] if isinstance(c, tuple)]
    if len(kids_e) != len(kids_g):
        return (norm_class(e), norm_class(g), 'arity')
    for a, b in zip(kids_e, kids_g):
        r = first_mismatch(a, b)
        if r:
            # report the pair (this node, the child that went wrong)
            return r
    return (norm_class(e), norm_class(g), 'parentheses-flag')


def norm_to_sql(x):
    """fully parenthesised sqlite text of a normalised tree"""
    k = x[0]
    if k == 'id':
        return x[1]
    if k == 'null':
        return 'NULL'
    if k == 'const':
        return repr(x[1])
    if k == 'un':
        return f'({x[1]} {norm_to_sql(x[2])})'
    if k == 'between':
        return f'({norm_to_sql(x[1])} BETWEEN {norm_to_sql(x[2])} AND {norm_to_sql(x[3])})'
    if k == 'tuple':
        return '(' + ', '.join(norm_to_sql(c) for c in x[1:]) + ')'
    if k == 'bin':
        return f'({norm_to_sql(x[2])} {x[1]} {norm_to_sql(x[3])})'
    raise ValueError(x)


class SqliteEval:
    def __init__(self):
        self.con = sqlite3.connect(':memory:')
        self.con.execute('create table v(x)')
        self.con.executemany('insert into v values (?)', [(None,), (0,), (1,), (2,)])
        self.cache = {}

    def table(self, expr, names):
        key = (expr, tuple(names))
        if key in self.cache:
            return self.cache[key]
        frm = ', '.join(f'(select x as {n} from v) ' for n in names)
        order = ', '.join(names)
        try:
            rows = self.con.execute(f'select {expr} from {frm} order by {order}').fetchall()
            r = tuple(x[0] for x in rows)
        except sqlite3.Error as e:
            r = ('error', str(e))
        if len(self.cache) < 20000:
            self.cache[key] = r
        return r


class CHECK(Check):
    pid = 'C03'
    level = 'exploration'
    assumptions = ['standard order: unary minus > * / % > + - > comparisons and predicates > NOT > AND > OR, left associative chains',
                   'sqlite 3 agrees with that order on the generated subset (no comparison is a bare operand of a comparison)']

    def setup(self, tier, seed):
        self.tier, self.seed = tier, seed
        self.models = {d: gsx.Model(d) for d in gsx.DIALECTS}
        self.sq = None
        # which operators does each dialect's grammar have at all
        self.supported = {}
        for d in gsx.DIALECTS:
            sup = []
            for op in ALL_OPS:
                t = label(next(trees(1, [op], None)), iter('abcdefgh'))
                if parsing.outcome('select ' + show(t), d).kind == 'ok':
                    sup.append(op)
            self.supported[d] = sup
        # expression contexts the dialect's grammar has at all (probed with a trivial comparison)
        self.contexts = {d: [c for c, tpl in CONTEXTS.items() if parsing.outcome(tpl.format(e='a = b'), d).kind == 'ok'] for d in gsx.DIALECTS}

    def cases(self):
        out = []
        thorough = self.tier == 'thorough'
        seen = set()
        for d in gsx.DIALECTS:
            sup = self.supported[d]
            plan = [(1, sup, True), (2, sup, True), (3, [o for o in REPS if o in sup], False)]
            if thorough:
                plan = [(1, sup, True), (2, sup, True), (3, sup, False), (4, [o for o in ('neg', 'not', '*', '+', '=', 'IN', 'between', 'AND', 'OR') if o in sup], False)]
            for n, ops, redundant in plan:
                for t in trees(n, ops, None):
                    lt = label(t, iter('abcdefghijklmnop'))
                    ctxs = self.contexts[d] if (n <= 2 or thorough and n == 3) else ['select', 'where']
                    for ctx in ctxs:
                        out.append((d, ctx, lt, ()))
                    if n <= 2:
                        # layout deviation: every blank of the text (also the blanks inside IS NOT / NOT IN / NOT LIKE) as a line break / tab / two blanks
                        for lay in ('nl', 'tab', 'sp2'):
                            out.append((d, 'where', lt, (), lay))
                    if redundant:
                        for path in all_paths(lt):
                            out.append((d, 'select', lt, (path,)))
                            out.append((d, 'where', lt, (path,))) if path != () else None
        return out

    def run(self, case):
        res = Result()
        d, ctx, t, pp = case[:4]
        marks = set()
        e = show(t, pp, marks=marks)
        if ctx in ('where', 'having', 'on') and () in marks:
            pass
        text = CONTEXTS[ctx].format(e=e)
        if len(case) > 4:
            text = text.replace(' ', {'nl': '\n', 'tab': '\t', 'sp2': '  '}[case[4]])
        out = parsing.outcome(text, d)
        ops = ops_of(t)
        for o in ops:
            res.covered('ops_' + d, o)
        if out.kind != 'ok':
            if out.kind == 'crash':
                res.count('crash_(C02)')
                return res
            cl = '+'.join(sorted({CLASS[o] for o in ops}))
            res.violation(f'{d}|rejects-valid-expression|{cl}', f'{text!r} rejected: {str(out.exc)[:160]!r}')
            return res
        node = locate(out.value, ctx)
        exp = expected_norm(t, marks)
        got = ast_norm(node)
        res.key((d, got))
        res.count('parsed')
        mm = first_mismatch(exp, got)
        if mm:
            res.violation(f'{d}|{mm[2]}|expected={mm[0]}|got={mm[1]}', f'{text!r}: expected {norm_to_sql(exp) if mm[2] != "parentheses-flag" else exp} parsed as {norm_to_sql(got) if got[0] != "other" else got}')
        # semantic cross-check (small trees only)
        if count_ops(t) <= 2 and ctx == 'select' and not pp:
            if self.sq is None:
                self.sq = SqliteEval()
            names = leaves_of(t)
            a = self.sq.table(e, names)
            b = self.sq.table(show(t, full=True), names)
            res.count('sqlite_crosschecks')
            if a != b:
                res.violation('oracle|minimal-vs-full-parenthesised-disagree-in-sqlite', f'{e!r} vs {show(t, full=True)!r}')
            if got[0] != 'other':
                try:
                    c = self.sq.table(norm_to_sql(got), names)
                except ValueError:
                    c = None
                if c is not None and c != a and not mm:
                    res.violation(f'{d}|evaluates-differently', f'{text!r}: parsed tree {norm_to_sql(got)} evaluates differently from the source text in sqlite')
                if c is not None and c != a and mm:
                    res.count('misgroupings_visible_in_evaluation')
        return res

    def coverage(self, agg):
        return {'exhaustive': True,
                'rule': 'all operator trees with <=2 operator nodes over all operators (+ every redundant parenthesis pair), 3 nodes over class '
                        'representatives (thorough: all operators; 4 nodes over representatives), x dialects x contexts; distinct_nontrivial = '
                        'distinct (dialect, parsed expression shape)',
                'supported_operators': self.supported, 'contexts': self.contexts}

    def describe_case(self, case):
        d, ctx, t, pp = case[:4]
        text = CONTEXTS[ctx].format(e=show(t, pp))
        if len(case) > 4:
            text = text.replace(' ', {'nl': '\n', 'tab': '\t', 'sp2': '  '}[case[4]])
        return {'dialect': d, 'context': ctx, 'text': text, 'redundant_parentheses_at': [list(p) for p in pp]}


def all_paths(t, path=()):
    out = [path]
    if t[0] != 'leaf':
        for i, c in enumerate(t[1:]):
            if t[0] in INOPS and i > 0:
                continue
            out.extend(all_paths(c, path + (i,)))
    return out


def ops_of(t):
    if t[0] == 'leaf':
        return []
    r = [t[0]]
    for c in t[1:]:
        r.extend(ops_of(c))
    return r


def count_ops(t):
    return len(ops_of(t))


def leaves_of(t):
    if t[0] == 'leaf':
        return [t[1]]
    r = []
    for c in t[1:]:
        r.extend(leaves_of(c))
    return r


def locate(ast, ctx):
    if ctx == 'select':
        return ast.targets[0]
    if ctx == 'where':
        return ast.where
    if ctx == 'on':
        return ast.from_table.condition
    if ctx == 'having':
        return ast.having
    if ctx == 'farg':
        return ast.targets[0].args[0]
    if ctx == 'case':
        return ast.targets[0].rules[0][0]

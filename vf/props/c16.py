"""C16 - queries embedded in MindsDB commands are stored verbatim (up to whitespace and comments).

All inner texts that are sequences of <= n lexemes over an alphabet chosen to collide with every
value-rewriting lexer action, x every embedding command, x layouts.  Oracle: the source slices
text[tok.index:tok.end] of the live lexer's tokens for the inner source and for the stored string
are equal, and when the inner text parses on its own, parse_sql(stored) gives the same tree.
"""
import itertools

from vf import gsx, parsing
from vf.runner import Check, Result, exc_sig

LEX = ["''", "'a'", "'it''s'", "'a\\'b'", '"x"', '"a\\"b"', '@v', '@@sv', '@`a b`', "@'a b'", '1', '007', '1.0', '1.50',
       'x', '`x y`', '(', ')', ',', '=', '*', '::', '->', '-- c\n', '/* c */', '\n', 'select', 'from', 'where', "''''", '"\'"', '%',
       "'a\nb'", "'x  y'", "'a\tb'", '"p  q"', '||', 'AS', "'she said \u201cok\u201d'", "'rock \u2019n\u2019 roll'", "'a\u00a0b'"]

EMBED = [
    ('create_model_db', 'CREATE MODEL m FROM db ({q}) PREDICT y', 'query_str'),
    ('create_model', 'CREATE MODEL m FROM ({q}) PREDICT y', 'query_str'),
    ('create_predictor', 'CREATE PREDICTOR m FROM db ({q}) PREDICT y', 'query_str'),
    ('create_anomaly', 'CREATE ANOMALY DETECTION MODEL m FROM db ({q})', 'query_str'),
    ('retrain', 'RETRAIN m FROM db ({q})', 'query_str'),
    ('finetune', 'FINETUNE m FROM db ({q})', 'query_str'),
    ('evaluate', 'EVALUATE m FROM ({q})', 'query_str'),
    ('create_view_as', 'CREATE VIEW v AS ({q})', 'query_str'),
    ('create_view', 'CREATE VIEW v ({q})', 'query_str'),
    ('create_view_from', 'CREATE VIEW v FROM db ({q})', 'query_str'),
    ('create_job', 'CREATE JOB j ({q})', 'query_str'),
    ('create_job_if', 'CREATE JOB j (select 1) IF ({q})', 'if_query_str'),
    ('create_job_sched', 'CREATE JOB j AS ({q}) EVERY hour', 'query_str'),
    ('create_trigger', 'CREATE TRIGGER t ON db.tbl ({q})', 'query_str'),
    ('native', 'SELECT * FROM db ({q})', 'native'),
]

# twin lexemes: one name spelt as every token kind that carries a name or value, so that equal spellings / equal decoded
# values of different kinds meet in one statement (the names are also the model / column names of the templates) or in
# two statements lexed one after the other in one process
TWIN_NAMES = ['x', 'm']
TWIN_FORMS = ['{n}', '@{n}', '@@{n}', "'{n}'", '"{n}"', '`{n}`', '@`{n}`', "@'{n}'", '@"{n}"', '{N}']
TWINS = [f.format(n=n, N=n.upper()) for n in TWIN_NAMES for f in TWIN_FORMS]

# spellings of literals that other SQL dialects have and a lexer might come to accept (dollar quoting, prefixed strings, hex /
# exponent / bare-dot numbers): whatever token they become, the stored text must keep the characters
EXOTIC = ['$$a$$', "$$it's$$", '$t$a$t$', "E'a\\n'", "N'a'", "X'41'", "b'1'", '0x1F', '1e5', '.5', '5.', '1_000', "U&'a'", '[x y]', '"a""b"']
EXOTIC_WITH = EXOTIC + ['x', "'a'", '=', ',', 'select']

LAYOUTS = ['line', 'own_lines', 'indented', 'tight', 'tight_then_blank']


def balanced(seq):
    depth = 0
    for s in seq:
        if s == '(':
            depth += 1
        elif s == ')':
            depth -= 1
            if depth < 0:
                return False
    return depth == 0


def lay(seq, layout):
    if layout == 'line':
        return ' '.join(seq)
    if layout == 'own_lines':
        return '\n' + ' '.join(seq) + '\n'
    if layout == 'tight':
        return ''.join(seq)
    if layout == 'tight_then_blank':
        # the first two lexemes adjacent, the others separated by one blank
        return seq[0] + ' '.join(seq[1:]) if len(seq) > 1 else seq[0]
    return '\n    ' + '\n      '.join(seq) + '\n'


def slices(m, text):
    return [(t.type, text[t.index:t.end]) for t in m.lex(text)]


class CHECK(Check):
    pid = 'C16'
    level = 'exploration'
    assumptions = ['"the characters the user wrote, up to whitespace and comments" = equality of the live lexer\'s token source slices']

    def setup(self, tier, seed):
        self.tier, self.seed = tier, seed
        self.m = gsx.Model('mindsdb')
        self.fam = gsx.Families(self.m, 1)

    def cases(self):
        out = []
        thorough = self.tier == 'thorough'
        for n in (1, 2, 3) + ((4,) if thorough else ()):
            lex = LEX if n <= 3 else LEX[:26]
            for seq in itertools.product(lex, repeat=n):
                if not balanced(seq) or seq[-1] == '-- c\n' and False:
                    continue
                for ei in range(len(EMBED)):
                    if n <= 2 or thorough and n == 3:
                        for layout in LAYOUTS:
                            out.append((ei, layout, seq))
                    elif n == 3:
                        out.append((ei, LAYOUTS[(ei + len(seq[0])) % len(LAYOUTS)], seq))
                    else:
                        if ei in (0, 8, 11, 14):
                            out.append((ei, 'line', seq))
        # twin family: all sequences of <= 2 twin lexemes (thorough 3 over one name), and every twin lexeme lexed by an earlier
        # statement of the same process (prelude) before each single twin lexeme is embedded
        for n in (1, 2) + ((3,) if thorough else ()):
            for seq in itertools.product(TWINS if n <= 2 else TWINS[:len(TWIN_FORMS)], repeat=n):
                for ei in range(len(EMBED)):
                    out.append((ei, 'line', seq))
        for n in (1, 2):
            for seq in itertools.product(EXOTIC_WITH, repeat=n):
                if any(x in EXOTIC for x in seq):
                    for ei in range(len(EMBED)):
                        out.append((ei, 'line', seq))
        for pre in TWINS:
            for tw in TWINS:
                for ei in range(len(EMBED)):
                    out.append((ei, 'prelude:' + pre, (tw,)))
        # every accepted S0 sentence of the grammar as an inner query (numbered lexemes)
        m = self.m
        sents = set(self.fam.s0_pairs()) | (set(self.fam.s0_edges()) if thorough else set())
        for s in sorted(sents):
            if not m.simulate(s)[0] or any(t not in m.lexeme for t in s) or not balanced([m.lexeme[t] for t in s]):
                continue
            text = m.text_of(s, numbered=True)
            for ei in (0, 7, 11, 14) if not thorough else range(len(EMBED)):
                out.append((ei, 'text', text))
        return out

    def run(self, case):
        res = Result()
        ei, layout, payload = case
        name, tpl, attr = EMBED[ei]
        m = self.m
        if layout.startswith('prelude:'):
            parsing.outcome('SELECT ' + layout[len('prelude:'):], 'mindsdb')
            layout = 'line'
        inner = payload if layout == 'text' else lay(payload, layout)
        text = tpl.format(q=inner)
        out = parsing.outcome(text, 'mindsdb')
        if out.kind != 'ok':
            res.count('embedding_not_accepted_' + out.kind)
            return res
        ast = out.value
        try:
            stored = ast.from_table.query if attr == 'native' else getattr(ast, attr)
        except AttributeError:
            res.count('embedding_parsed_as_something_else')
            return res
        if not isinstance(stored, str):
            res.count('embedding_parsed_as_something_else')
            return res
        res.count('judged')
        res.covered('embeddings', name)
        try:
            src = slices(m, inner)
        except parsing.LexError:
            res.count('inner_unlexable')
            return res
        try:
            got = slices(m, stored)
        except parsing.LexError as e:
            bad = next((t for t, s in src if t in ('QUOTE_STRING', 'DQUOTE_STRING', 'VARIABLE', 'SYSTEM_VARIABLE')), 'other')
            res.violation(f'{attr}|stored-text-unlexable|source-has={bad}', f'{text!r}: stored {stored!r} cannot be lexed ({str(e)[:60]!r})')
            return res
        res.key((name, stored))
        if src != got:
            k = 0
            while k < min(len(src), len(got)) and src[k] == got[k]:
                k += 1
            st = src[k][0] if k < len(src) else '$end'
            res.violation(f'{attr}|token-text-changed|{st}', f'{text!r}: stored {stored!r}; source token #{k} {src[k] if k < len(src) else None!r} became {got[k] if k < len(got) else None!r}')
            return res
        o1 = parsing.outcome(inner, 'mindsdb')
        if o1.kind == 'ok':
            o2 = parsing.outcome(stored, 'mindsdb')
            try:
                same = o2.kind == 'ok' and o2.value.to_tree() == o1.value.to_tree()
            except Exception:
                same = True   # printing problems belong to C01
            res.count('inner_parses')
            if not same:
                res.violation(f'{attr}|stored-parses-differently', f'{text!r}: stored {stored!r} parses differently from the inner query')
        return res

    def coverage(self, agg):
        return {'exhaustive': True, 'lexeme_alphabet': LEX, 'embeddings': [e[0] for e in EMBED], 'layouts': LAYOUTS,
                'rule': 'all balanced lexeme sequences of length<=3 (thorough 4) x 15 embeddings x layouts (length 3: one layout per embedding in quick) '
                        '+ spellings of literals other SQL dialects have (dollar quoting, prefixed strings, hex / exponent numbers) in sequences of <= 2 + twin lexemes (one name as identifier / @variable / @@variable / each quoted form / upper case): all sequences of <= 2, and each one embedded after each other one was lexed by an earlier statement of the process + accepted grammar sentences as inner queries; distinct_nontrivial = distinct (embedding, stored string)'}

    def describe_case(self, case):
        ei, layout, payload = case
        pre = None
        if layout.startswith('prelude:'):
            pre, layout = 'SELECT ' + layout[len('prelude:'):], 'line'
        inner = payload if layout == 'text' else lay(payload, layout)
        d = {'embedding': EMBED[ei][0], 'layout': layout, 'text': EMBED[ei][1].format(q=inner)}
        if pre:
            d['statement_parsed_before_in_the_same_process'] = pre
        return d

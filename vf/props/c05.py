"""C05 - a statement is accepted only if its whole token stream is one grammar sentence.

Model checking of the parser automaton: BFS over between-token configurations of the live LALR
tables (abstract state = top-k stack suffix), every terminal tried in every state; every derived
sentence (valid, one-token deviations at every state, truncations, statement concatenations) is
replayed through parse_sql.  Oracle for every accepted text: the token stream produced by a fresh
lexer is accepted by (1) the PDA over the live tables without any error recovery and (2) an Earley
recogniser over the live productions.
"""
import itertools

from vf import gsx, parsing
from vf.runner import Check, Result


class CHECK(Check):
    pid = 'C05'
    level = 'model_checking'
    assumptions = [
        'the live lexer defines the token stream the property speaks about',
        'the grammar is Parser._grammar.Productions of the working tree (read at run time)',
        'Earley membership ignores precedence, which only removes sentences (sound upper bound)',
    ]

    def setup(self, tier, seed):
        self.tier, self.seed = tier, seed
        self.models = {d: gsx.Model(d) for d in gsx.DIALECTS}
        self.earley = {d: gsx.Earley(m) for d, m in self.models.items()}
        self.k = 1
        self.fams = {d: gsx.Families(m, self.k) for d, m in self.models.items()}
        self.fams2 = {}
        if tier == 'thorough':
            self.fams2 = {d: gsx.Families(m, 2) for d, m in self.models.items()}

    GARBAGE = [('ID',), ('ID', 'ID'), ('RPAREN',), ('COMMA',), ('INTEGER',), ('ID', 'SELECT')]

    def tops(self, m):
        out = []
        for p in m.prods_of[m.start]:
            y = m.min_yield_seq(p.prod)
            if m.simulate(y)[0]:
                out.append(y)
        return out

    def cases(self):
        out = []
        self.structural = []
        for d, m in self.models.items():
            f = self.fams[d]
            for s in f.s0_edges():
                out.append((d, 's0e', s))
            pairs = f.s0_pairs()
            for s in pairs:
                out.append((d, 's0p', s))
            for kind, s in f.s1():
                out.append((d, kind, s))
                if kind != 'trunc':
                    # the same deviation with every token on a line of its own (recovery that works line-wise), and with an empty
                    # line comment / a block comment between the tokens (comment patterns that swallow what follows)
                    out.append((d, kind + '/nl', s))
                    out.append((d, kind + '/lc', s))
                    out.append((d, kind + '/bc', s))
            # statement concatenations, in several layouts
            tops = self.tops(m)
            for a, b in itertools.product(tops, tops):
                out.append((d, 'cat', a + b))
                out.append((d, 'cat/nl', a + b))
                out.append((d, 'text', m.text_of(a) + ' ; ' + m.text_of(b)))
                out.append((d, 'text', m.text_of(a) + ';\n' + m.text_of(b)))
                out.append((d, 'text', m.text_of(a) + '\n' + m.text_of(b)))
            for a in tops:
                for gb in self.GARBAGE:
                    for x, y in ((gb, a), (a, gb)):
                        out.append((d, 'cat', x + y))
                        out.append((d, 'cat/nl', x + y))
                        for sep in (' ; ', ';\n', '\n', '\n;\n', ' ;\n\n', ' -- c\n', ' /* c\n */ ', ' --\n', '--\n', ' -- \n', ' #\n', ' /**/ ', ' --\n\n'):
                            out.append((d, 'text', m.text_of(x) + sep + m.text_of(y)))
                        # one line break at every position of the concatenation
                        z = x + y
                        for i in range(1, len(z)):
                            out.append((d, 'text', m.text_of(z[:i]) + '\n' + m.text_of(z[i:])))
                    for b in tops[:8]:
                        # garbage line, dropped token, then two statements / statement, garbage, statement
                        out.append((d, 'text', m.text_of(gb) + '\n' + m.text_of(a) + ';\n' + m.text_of(b)))
                        out.append((d, 'text', m.text_of(a) + ';\n' + m.text_of(gb) + '\n' + m.text_of(b)))
                        out.append((d, 'text', m.text_of(a) + '\n' + m.text_of(gb) + ';\n' + m.text_of(b)))
                for tail in (';', ' ;', ';;', ' ; ; ', '\n;\n', ' ;\t'):
                    out.append((d, 'text', m.text_of(a) + tail))
                out.append((d, 'text', '; ' + m.text_of(a)))
            # separator / tail products: statement, every sequence of <= 2 separator atoms, statement or garbage, every tail
            # (clean-up of the end of the text must never reach back over tokens)
            atoms = [';', ' ', '\n', ' -- c\n', ' /* c */ ', ' --\n', ' /* ; */ ', " '", ' "']
            seps = [''.join(t) for n in (1, 2) for t in itertools.product(atoms[:7], repeat=n)]
            tails = ['', ' /* c */', ' -- c', ';', ' ; /* c */', ' /* c */ ;', '\n-- c\n', ' /* c */ /* d */', ' ; -- c', " ; '", ' ; /*', ' ; */']
            seconds = [m.text_of(b) for b in tops[:3]] + [m.text_of(g) for g in self.GARBAGE[:3]] + ['/* x */', "'"]
            for a in tops[:5] if self.tier != 'thorough' else tops[:12]:
                for b in seconds:
                    for sep in seps:
                        if not sep.strip():
                            continue
                        for tail in tails:
                            out.append((d, 'text', m.text_of(a) + sep + b + tail))
            if self.tier == 'thorough':
                for s in f.s0_triples(exclude=pairs):
                    out.append((d, 's0t', s))
                f2 = self.fams2[d]
                n2 = len(f2.ex['states'])
                for lo in range(0, n2, 200):
                    out.append(('@group', d, 'k2', lo, min(n2, lo + 200)))
                n1 = len(f.ex['states'])
                for lo in range(0, n1, 10):
                    out.append(('@group', d, 'two', lo, min(n1, lo + 10)))
            # structural: no production mentions `error`
            for p in m.prods:
                if 'error' in p.prod:
                    self.structural.append((d, str(p)))
        if self.structural:
            out.append(('*', 'structural', tuple(self.structural)))
        return out

    def expand(self, group):
        """lazily generated families of the thorough tier (generated inside the worker)"""
        _, d, fam, lo, hi = group
        m = self.models[d]
        if fam == 'k2':
            f2 = self.fams2[d]
            keys = list(f2.ex['states'])[lo:hi]
            for a in keys:
                pre, stk = f2.ex['states'][a]
                for t in m.terminals:
                    r = m.step(stk, t)
                    if r is not None and r != 'accept':
                        c = m.complete(r)
                        if c is not None:
                            yield (d, 's0e2', pre + (t,) + c)
                c = f2.comp[a] or ()
                for t in m.terminals:
                    yield (d, 'ins2k', pre + (t,) + c)
                    if c:
                        yield (d, 'rep2k', pre + (t,) + c[1:])
                if c:
                    yield (d, 'del2k', pre + c[1:])
                yield (d, 'trunc2k', pre)
        elif fam == 'two':
            # two deviations on k=1 witnesses over column-class representatives
            f = self.fams[d]
            reps = column_class_reps(m)
            keys = list(f.ex['states'])[lo:hi]
            for a in keys:
                pre, stk = f.ex['states'][a]
                c = f.comp[a] or ()
                for t1 in reps:
                    for t2 in reps:
                        yield (d, 'ins2', pre + (t1, t2) + c)
                        if c:
                            yield (d, 'insrep', pre + (t1,) + c[:1] + (t2,) + c[2:])

    def run(self, case):
        res = Result()
        d, kind, payload = case
        if kind == 'structural':
            for dd, p in payload:
                res.violation(f'{dd}|error-production|{p}', 'grammar contains an error-recovery production')
            return res
        m = self.models[d]
        if kind == 'text':
            text = payload
        else:
            if any(t not in m.lexeme for t in payload):
                res.count('skipped_no_lexeme')
                return res
            text = m.text_of(payload)
            if kind.endswith('/nl'):
                text = text.replace(' ', '\n')
            elif kind.endswith('/lc'):
                text = text.replace(' ', ' --\n')
            elif kind.endswith('/bc'):
                text = text.replace(' ', ' /**/ ')
        try:
            actual = tuple(m.lex_types(parsing.strip_tail(text)))
        except parsing.LexError:
            actual = None
        if kind.endswith(('/nl', '/lc', '/bc')) and not any(' ' in m.lexeme[t] for t in payload):
            # line breaks and comments between tokens are white space: the token stream must be the one of the one-line spelling
            try:
                plain = tuple(m.lex_types(parsing.strip_tail(m.text_of(payload))))
            except parsing.LexError:
                plain = None
            if plain is not None and plain == tuple(payload) and actual != plain:
                res.violation(f'{d}|layout-changes-token-stream|{kind.split("/")[1]}',
                              f'text {text!r} lexes as {" ".join(actual) if actual is not None else "LexError"}; the same tokens on one line lex as {" ".join(plain)}')
                return res
        out = parsing.outcome(text, d)
        res.count('outcome_' + out.kind)
        if actual is None:
            if out.kind == 'ok':
                res.violation(f'{d}|accepted-unlexable|{kind}', f'text {text!r} accepted but lexer rejects it')
            return res
        cells = set()
        pda_ok, err = m.simulate(actual, cells)
        for c in cells:
            res.covered('cells_' + d, c)
        if out.kind == 'ok':
            res.key((d, actual))
            if not pda_ok:
                bad = actual[err] if err < len(actual) else '$end'
                res.violation(f'{d}|accepted-non-sentence|{kind}',
                              f'text {text!r} tokens {" ".join(actual)}: the LALR automaton (no recovery) stops at token #{err} ({bad}) but parse_sql returned a tree: {str(out.value)[:200]!r}')
            elif not self.earley[d].accepts(actual):
                res.violation(f'{d}|accepted-not-in-CFG', f'text {text!r} tokens {" ".join(actual)} accepted, Earley over live productions rejects')
            else:
                res.count('accepted_and_member')
        elif out.kind in ('perr',):
            if pda_ok and out.is_syntax_error:
                res.violation(f'conformance|{d}|pda-accepts-impl-syntax-error',
                              f'text {text!r}: automaton model accepts, implementation reports {str(out.exc)[:200]!r}')
            elif pda_ok:
                res.count('semantic_veto')
            else:
                res.count('rejected_and_nonmember')
        return res

    def coverage(self, agg):
        cov = {'exhaustive': True, 'k': self.k}
        st = tr = 0
        per = {}
        for d, f in self.fams.items():
            st += len(f.ex['states'])
            tr += f.ex['edges']
            per[d] = {'abstract_states_k1': len(f.ex['states']), 'transitions_tried': f.ex['edges'],
                      'valid_transitions': f.ex['valid_edges'], 'cells_consulted_in_model': len(f.ex['cells']),
                      'cells_hit_through_parse_sql_inputs': len(agg['cover'].get('cells_' + d, ())),
                      'dead_states': len(f.dead), 'lr_states': len(self.models[d].action),
                      'productions': len(self.models[d].prods),
                      'terminals_without_lexeme': sorted(self.models[d].unverified_lexemes)}
        for d, f in self.fams2.items():
            st += len(f.ex['states'])
            tr += f.ex['edges']
            per[d]['abstract_states_k2'] = len(f.ex['states'])
        cov.update({'states': st, 'transitions': tr, 'traces_validated_against_impl': agg['n'],
                    'per_dialect': per,
                    'rule': 'cases = S0 edge cover + production-pair cover + S1 (insert/replace with every terminal, delete, truncate at every '
                            'abstract state, each also with one token per line) + statement concatenations in 9 layouts and with a line break at every position + statement x every sequence of <= 2 separator atoms (semicolon, blank, line break, line / block comments) x statement or garbage x 12 tails (thorough: + production triples, k=2 states, two deviations); distinct_nontrivial = distinct accepted token streams'})
        return cov

    def describe_case(self, case):
        d, kind, payload = case
        if kind == 'text' or kind == 'structural':
            return {'dialect': d, 'kind': kind, 'text': payload}
        text = self.models[d].text_of(payload)
        for suf, sep in (('/nl', '\n'), ('/lc', ' --\n'), ('/bc', ' /**/ ')):
            if kind.endswith(suf):
                text = text.replace(' ', sep)
        return {'dialect': d, 'kind': kind, 'text': text}


def column_class_reps(m):
    """one representative terminal per class of terminals with identical action columns"""
    cols = {}
    for t in m.terminals:
        col = tuple(sorted((s, row[t]) for s, row in m.action.items() if t in row))
        cols.setdefault(col, t)
    return sorted(cols.values())

"""C10 - every table and model in a query is routed to the place its name resolves to.

Templates put a data table (or model) in every table position the property lists, with every
qualifier spelling, under every catalog encoding.  Ground truth = the template's list of table
occurrences + an independent resolver (first name part matched case-insensitively against
integrations and projects, else the default namespace).  Plans are scanned reflectively.
"""
import itertools

from mindsdb_sql.exceptions import PlanningException
from mindsdb_sql.parser import ast as A
from mindsdb_sql.planner import plan_query, steps as S

from vf import parsing, reflect
from vf.runner import Check, Result, exc_sig

HOME = {'t1': 'int1', 't3': 'int1', 't2': 'int2'}
SPELL = {'lower': lambda s: s, 'upper': lambda s: s.upper(), 'capital': lambda s: s.capitalize(), 'backquoted': lambda s: f'`{s}`', 'backquoted_upper': lambda s: f'`{s.upper()}`'}

# position label, template; {A} = qualifier of the probed table t2 (home int2), other tables are spelled plainly
POSITIONS = [
    ('from', 'SELECT * FROM {A}.t2', ['t2']),
    ('from_where', 'SELECT * FROM {A}.t2 WHERE {A}.t2.b = 1', ['t2']),
    ('from_alias', 'SELECT s.b FROM {A}.t2 AS s WHERE s.b = 1', ['t2']),
    ('join_right', 'SELECT * FROM int1.t1 JOIN {A}.t2 ON t1.id = t2.id', ['t1', 't2']),
    ('join_left', 'SELECT * FROM {A}.t2 JOIN int1.t1 ON t1.id = t2.id', ['t2', 't1']),
    ('join_both_same', 'SELECT * FROM {A}.t2 JOIN {A}.t2 AS u ON t2.id = u.id', ['t2', 't2']),
    ('join_three', 'SELECT * FROM int1.t1 JOIN {A}.t2 ON t1.id = t2.id JOIN int1.t3 ON t3.id = t2.id', ['t1', 't2', 't3']),
    ('where_in_subquery', 'SELECT * FROM int1.t1 WHERE id IN (SELECT id FROM {A}.t2)', ['t1', 't2']),
    ('where_exists', 'SELECT * FROM int1.t1 WHERE EXISTS (SELECT id FROM {A}.t2)', ['t1', 't2']),
    ('where_scalar', 'SELECT * FROM int1.t1 WHERE a = (SELECT max(b) FROM {A}.t2)', ['t1', 't2']),
    ('target_subquery', 'SELECT id, (SELECT max(b) FROM {A}.t2) AS m FROM int1.t1', ['t1', 't2']),
    ('case_operand', 'SELECT CASE (SELECT max(b) FROM {A}.t2) WHEN 1 THEN 1 ELSE 0 END AS m FROM int1.t1', ['t1', 't2']),
    ('case_condition', 'SELECT CASE WHEN a = (SELECT max(b) FROM {A}.t2) THEN 1 ELSE 0 END AS m FROM int1.t1', ['t1', 't2']),
    ('case_result', 'SELECT CASE WHEN a = 1 THEN (SELECT max(b) FROM {A}.t2) ELSE 0 END AS m FROM int1.t1', ['t1', 't2']),
    ('function_argument', 'SELECT coalesce((SELECT max(b) FROM {A}.t2), 0) AS m FROM int1.t1', ['t1', 't2']),
    ('cast_argument', 'SELECT CAST((SELECT max(b) FROM {A}.t2) AS int) AS m FROM int1.t1', ['t1', 't2']),
    ('having_subquery', 'SELECT a, count(*) FROM int1.t1 GROUP BY a HAVING count(*) > (SELECT max(b) FROM {A}.t2)', ['t1', 't2']),
    ('order_subquery', 'SELECT a FROM int1.t1 ORDER BY (SELECT max(b) FROM {A}.t2)', ['t1', 't2']),
    ('join_on_subquery', 'SELECT * FROM int1.t1 JOIN int1.t3 ON t1.id = t3.id AND t1.a IN (SELECT b FROM {A}.t2)', ['t1', 't3', 't2']),
    ('cte_body', 'WITH c AS (SELECT * FROM {A}.t2) SELECT * FROM c JOIN int1.t1 ON c.id = t1.id', ['t2', 't1']),
    ('cte_only', 'WITH c AS (SELECT * FROM {A}.t2) SELECT * FROM c', ['t2']),
    ('from_subselect', 'SELECT * FROM (SELECT * FROM {A}.t2) AS s', ['t2']),
    ('join_subselect', 'SELECT * FROM int1.t1 JOIN (SELECT * FROM {A}.t2) AS s ON t1.id = s.id', ['t1', 't2']),
    ('union_right', 'SELECT id FROM int1.t1 UNION SELECT id FROM {A}.t2', ['t1', 't2']),
    ('insert_select', 'INSERT INTO int1.t1 (id, a, x) SELECT id, b, y FROM {A}.t2', ['t2']),
    ('insert_select_join', 'INSERT INTO int1.t3 (id, c) SELECT t1.id, t2.b FROM int1.t1 JOIN {A}.t2 ON t1.id = t2.id', ['t1', 't2']),
    ('update_from', 'UPDATE int1.t1 SET a = 1 FROM (SELECT * FROM {A}.t2) AS s WHERE t1.id = s.id', ['t2']),
    ('create_from', 'CREATE TABLE int1.n (SELECT * FROM {A}.t2)', ['t2']),
    ('delete_where_subquery', 'DELETE FROM int1.t1 WHERE id IN (SELECT id FROM {A}.t2)', ['t2']),
    ('nested_two_levels', 'SELECT * FROM int1.t1 WHERE id IN (SELECT id FROM int1.t3 WHERE c IN (SELECT b FROM {A}.t2))', ['t1', 't3', 't2']),
    # a sub-query / CTE / derived table whose own FROM joins a table of the outer integration with the probed table
    ('in_subquery_join', 'SELECT * FROM int1.t1 WHERE id IN (SELECT t3.id FROM int1.t3 JOIN {A}.t2 ON t3.id = t2.id)', ['t1', 't3', 't2']),
    ('in_subquery_join_rev', 'SELECT * FROM int1.t1 WHERE id IN (SELECT t2.id FROM {A}.t2 JOIN int1.t3 ON t3.id = t2.id)', ['t1', 't2', 't3']),
    ('target_subquery_join', 'SELECT id, (SELECT max(t2.b) FROM int1.t3 JOIN {A}.t2 ON t3.id = t2.id) AS m FROM int1.t1', ['t1', 't3', 't2']),
    ('exists_subquery_join', 'SELECT * FROM int1.t1 WHERE EXISTS (SELECT t3.id FROM int1.t3 JOIN {A}.t2 ON t3.id = t2.id)', ['t1', 't3', 't2']),
    ('from_subselect_join', 'SELECT * FROM (SELECT t1.id FROM int1.t1 JOIN {A}.t2 ON t1.id = t2.id) AS s', ['t1', 't2']),
    ('cte_join_body', 'WITH c AS (SELECT t1.id FROM int1.t1 JOIN {A}.t2 ON t1.id = t2.id) SELECT * FROM c', ['t1', 't2']),
    ('union_three', 'SELECT id FROM int1.t1 UNION SELECT id FROM {A}.t2 UNION SELECT id FROM int1.t3', ['t1', 't2', 't3']),
    # fully qualified column names in DML / DDL positions (the qualifier has to go there too)
    ('delete_qualified_where', 'DELETE FROM {A}.t2 WHERE {A}.t2.b = 5 AND {A}.t2.id IN (SELECT id FROM int1.t1)', ['t1']),
    ('update_qualified_where', 'UPDATE {A}.t2 SET b = 1 WHERE {A}.t2.id = 2', []),
    ('insert_select_qualified_columns', 'INSERT INTO int1.t1 (id, a, x) SELECT {A}.t2.id, {A}.t2.b, {A}.t2.y FROM {A}.t2 WHERE {A}.t2.b = 1', ['t2']),
    ('select_qualified_everywhere', 'SELECT {A}.t2.id FROM {A}.t2 JOIN int1.t1 ON {A}.t2.id = int1.t1.id WHERE {A}.t2.b = 1 ORDER BY {A}.t2.id', ['t2', 't1']),
    # a CTE named like a table of the probed integration; that table referenced by its qualified name
    ('cte_named_like_probed_table', 'WITH t2 AS (SELECT * FROM int1.t1 WHERE a = 1) SELECT * FROM t2 AS o JOIN {A}.t2 AS p ON o.id = p.id', ['t1', 't2']),
    ('cte_named_like_probed_table_sub', 'WITH t2 AS (SELECT * FROM int1.t1) SELECT * FROM int1.t3 JOIN {A}.t2 ON t3.id = t2.id WHERE t3.id IN (SELECT id FROM t2)', ['t1', 't3', 't2']),
    # a schema-qualified table whose schema part is spelled like ANOTHER integration (int1 holds a schema called int2)
    ('schema_named_like_other_integration', 'SELECT * FROM int1.int2.t1 AS u JOIN int1.t3 ON u.id = t3.id', ['t1', 't3']),
    ('schema_named_like_other_integration_model', 'SELECT * FROM int1.int2.t1 AS u JOIN mindsdb.pred', ['t1']),
    # a CTE over another integration that is only used from a sub-query / a join operand of the main query
    ('cte_foreign_used_in_subquery', 'WITH c AS (SELECT * FROM {A}.t2) SELECT * FROM int1.t1 WHERE id IN (SELECT id FROM c)', ['t2', 't1']),
    ('cte_foreign_used_in_target', 'WITH c AS (SELECT * FROM {A}.t2) SELECT id, (SELECT max(b) FROM c) AS m FROM int1.t1', ['t2', 't1']),
    ('cte_two_integrations', 'WITH c AS (SELECT * FROM {A}.t2), d AS (SELECT * FROM int1.t3) SELECT * FROM c JOIN d ON c.id = d.id', ['t2', 't3']),
    # star targets qualified with the integration (and the table), alone, in joins, in derived tables and in CTE bodies
    ('qualified_star', 'SELECT {A}.t2.* FROM {A}.t2', ['t2']),
    ('qualified_star_where', 'SELECT {A}.t2.*, {A}.t2.id FROM {A}.t2 WHERE {A}.t2.b = 1', ['t2']),
    ('qualified_star_join', 'SELECT {A}.t2.*, t1.id FROM {A}.t2 JOIN int1.t1 ON t1.id = t2.id', ['t2', 't1']),
    ('qualified_star_same_integration_join', 'SELECT {A}.t2.*, u.id FROM {A}.t2 JOIN {A}.t2 AS u ON t2.id = u.id', ['t2', 't2']),
    ('qualified_star_in_derived_table', 'SELECT * FROM int1.t1 JOIN (SELECT {A}.t2.* FROM {A}.t2) AS s ON t1.id = s.id', ['t1', 't2']),
    ('qualified_star_in_cte', 'WITH c AS (SELECT {A}.t2.* FROM {A}.t2) SELECT * FROM c JOIN int1.t1 ON c.id = t1.id', ['t2', 't1']),
    ('qualified_star_insert_select', 'INSERT INTO int1.t1 SELECT {A}.t2.* FROM {A}.t2', ['t2']),
    ('subquery_same_integration_as_probe', 'SELECT * FROM {A}.t2 WHERE id IN (SELECT t1.id FROM int1.t1 JOIN {A}.t2 AS u ON t1.id = u.id)', ['t2', 't1', 't2']),
]

# a qualifier that is no integration and no project of the catalog at hand is a schema of the default namespace: (sql, table, parts kept)
UNKNOWN_QUALIFIER = [('SELECT * FROM proj.tbl', 'tbl', ['proj', 'tbl']), ('SELECT * FROM int2.t2 JOIN proj.tbl ON t2.id = tbl.id', 'tbl', ['proj', 'tbl']),
                     ('SELECT * FROM sch.tbl WHERE id IN (SELECT id FROM int2.t2)', 'tbl', ['sch', 'tbl']), ('SELECT * FROM pageviews.tbl JOIN int2.t2 ON t2.id = tbl.id', 'tbl', ['pageviews', 'tbl'])]
BARE = ['SELECT * FROM int2.t2 JOIN pred ON t2.id = pred.id', 'SELECT * FROM pred JOIN int2.t2 ON t2.id = pred.id', 'SELECT * FROM int2.t2 WHERE id IN (SELECT id FROM pred)',
        'SELECT * FROM int2.t2 JOIN pred', 'SELECT * FROM int2.t2 JOIN int1.t1 ON t1.id = t2.id JOIN pred ON pred.id = t1.id']

MODEL_POSITIONS = [
    ('join_model', 'SELECT * FROM int1.t1 JOIN {M}.pred', ['t1'], [('pred', None)]),
    ('join_model_version', 'SELECT * FROM int1.t1 JOIN {M}.pred.3', ['t1'], [('pred', '3')]),
    ('model_left', 'SELECT * FROM {M}.pred JOIN int1.t1', ['t1'], [('pred', None)]),
    ('select_from_model', 'SELECT * FROM {M}.pred WHERE a = 1', [], [('pred', None)]),
    ('select_from_model_version', 'SELECT * FROM {M}.pred.3 WHERE a = 1', [], [('pred', '3')]),
    ('two_tables_model', 'SELECT * FROM int1.t1 JOIN int2.t2 ON t1.id = t2.id JOIN {M}.pred', ['t1', 't2'], [('pred', None)]),
    ('model_in_subquery', 'SELECT * FROM int2.t2 WHERE id IN (SELECT t1.id FROM int1.t1 JOIN {M}.pred)', ['t2', 't1'], [('pred', None)]),
    ('insert_select_model', 'INSERT INTO int2.t2 SELECT * FROM int1.t1 JOIN {M}.pred', ['t1'], [('pred', None)]),
    ('two_models', 'SELECT * FROM int1.t1 JOIN {M}.pred JOIN {M}.pred2', ['t1'], [('pred', None), ('pred2', None)]),
    # two references to one model in one statement, with different versions
    ('union_two_versions', 'SELECT * FROM {M}.pred.1 WHERE a = 1 UNION ALL SELECT * FROM {M}.pred.2 WHERE a = 1', [], [('pred', '1'), ('pred', '2')]),
    ('union_version_and_plain', 'SELECT * FROM {M}.pred WHERE a = 1 UNION ALL SELECT * FROM {M}.pred.7 WHERE a = 1', [], [('pred', None), ('pred', '7')]),
    ('union_plain_after_version', 'SELECT * FROM {M}.pred.7 WHERE a = 1 UNION ALL SELECT * FROM {M}.pred WHERE a = 1', [], [('pred', '7'), ('pred', None)]),
    ('join_two_versions', 'SELECT * FROM int1.t1 JOIN {M}.pred.1 AS p1 JOIN {M}.pred.2 AS p2', ['t1'], [('pred', '1'), ('pred', '2')]),
    ('subquery_two_versions', 'SELECT * FROM int1.t1 JOIN {M}.pred.1 WHERE t1.id IN (SELECT t3.id FROM int1.t3 JOIN {M}.pred.2)', ['t1', 't3'], [('pred', '1'), ('pred', '2')]),
]

CATALOGS = ['names_list', 'dicts_list', 'names_legacy', 'dicts_default', 'upper_names', 'legacy_dict_capital_project', 'list_capital_project', 'legacy_dict_default_int1', 'names_default_int1']


def catalog(kind, project='mindsdb'):
    metas = [dict(name='pred', integration_name=project), dict(name='pred2', integration_name=project)]
    if kind == 'names_list':
        return dict(integrations=['int1', 'int2'] + ([] if project == 'mindsdb' else [{'name': project, 'type': 'project'}]), predictor_metadata=metas)
    if kind == 'dicts_list':
        return dict(integrations=[{'name': 'int1', 'type': 'data'}, {'name': 'int2', 'type': 'data'}, {'name': project, 'type': 'project'}], predictor_metadata=metas)
    if kind == 'names_legacy':
        if project != 'mindsdb':
            return None
        return dict(integrations=['int1', 'int2'], predictor_namespace='mindsdb', predictor_metadata={'pred': {}, 'pred2': {}})
    if kind == 'dicts_default':
        return dict(integrations=[{'name': 'int1', 'type': 'data'}, {'name': 'int2', 'type': 'data'}, {'name': project, 'type': 'project'}],
                    predictor_metadata=metas, default_namespace='mindsdb')
    if kind == 'legacy_dict_capital_project':
        # legacy {name: info} metadata whose project is spelled with capitals and is listed nowhere else
        if project != 'proj':
            return None
        return dict(integrations=['int1', 'int2'], predictor_metadata={'pred': {'integration_name': 'Proj'}, 'pred2': {'integration_name': 'Proj'}}, default_namespace='mindsdb')
    if kind == 'legacy_dict_default_int1':
        if project != 'proj':
            return None
        return dict(integrations=['int1', 'int2'], predictor_metadata={'pred': {'integration_name': 'PROJ'}, 'pred2': {'integration_name': 'PROJ'}}, default_namespace='int1')
    if kind == 'list_capital_project':
        if project != 'proj':
            return None
        return dict(integrations=['int1', 'int2'], predictor_metadata=[dict(name='pred', integration_name='Proj'), dict(name='pred2', integration_name='Proj')], default_namespace='mindsdb')
    if kind == 'names_default_int1':
        # a data integration as default namespace
        return dict(integrations=['int1', 'int2'] + ([] if project == 'mindsdb' else [{'name': project, 'type': 'project'}]), predictor_metadata=metas, default_namespace='int1')
    if kind == 'upper_names':
        return dict(integrations=['INT1', 'Int2'] + ([] if project == 'mindsdb' else [{'name': project, 'type': 'project'}]), predictor_metadata=metas)


def table_leaves(node, out):
    """table references of a statement tree, found reflectively (every Select's from_table / join leaves)"""
    for sel, _ in reflect.walk(node, want=lambda o: isinstance(o, A.Select)):
        stack = [sel.from_table]
        while stack:
            n = stack.pop()
            if isinstance(n, A.Join):
                stack.extend([n.left, n.right])
            elif isinstance(n, A.Identifier):
                out.append(n)


def all_steps(steps):
    for s in steps:
        yield s
        if isinstance(s, S.MapReduceStep):
            yield from all_steps(s.step if isinstance(s.step, list) else [s.step])
        elif isinstance(s, S.MultipleSteps):
            yield from all_steps(s.steps)


def plan_shape(plan):
    out = []
    for s in all_steps(plan.steps):
        if isinstance(s, S.FetchDataframeStep):
            out.append(('fetch', s.integration, str(s.query)))
        elif isinstance(s, (S.ApplyPredictorStep, S.ApplyPredictorRowStep, S.GetPredictorColumns)):
            out.append((type(s).__name__, str(s.namespace).lower(), [str(p) for p in s.predictor.parts]))
        else:
            out.append((type(s).__name__,))
    return out


def role_swap_prelude(names=('int1', 'int2', 'proj', 'mindsdb', 'sch', 'pred', 'pageviews', 'datafiles')):
    """planners built earlier in the process over catalogs in which the same names play other roles (every name a project; every
    name a data integration): what a name is must come from the catalog of the planner at hand"""
    from mindsdb_sql import parse_sql
    from mindsdb_sql.planner.query_planner import QueryPlanner
    import copy as _copy
    cats = [dict(integrations=[{'name': n, 'type': 'project'} for n in names], predictor_metadata=[dict(name='t1', integration_name='int1'), dict(name='tbl', integration_name='proj')]),
            dict(integrations=[{'name': n, 'type': 'data'} for n in names], default_namespace=names[0])]
    for c in cats:
        for sql in ('SELECT * FROM int1.t1 JOIN int2.t2 ON t1.id = t2.id', 'SELECT * FROM proj.tbl', 'SELECT * FROM int1.t1 JOIN proj.tbl'):
            try:
                QueryPlanner(**_copy.deepcopy(c)).from_query(parse_sql(sql))
            except Exception:
                pass


class CHECK(Check):
    pid = 'C10'
    level = 'exploration'
    assumptions = ['resolver: first name part matched case-insensitively against integrations and projects, otherwise the default namespace',
                   'a "mention" of a table in a fetch = a FROM/JOIN leaf of any SELECT inside the fetch query']

    def setup(self, tier, seed):
        self.tier, self.seed = tier, seed

    def cases(self):
        out = []
        for (pl, tpl, tabs), sp, cat in itertools.product(POSITIONS, SPELL, CATALOGS):
            out.append(('table', pl, sp, cat, 'mindsdb' if catalog(cat, 'mindsdb') is not None else 'proj'))
        for (pl, tpl, tabs, models), sp, cat, proj in itertools.product(MODEL_POSITIONS, SPELL, CATALOGS, ('mindsdb', 'proj')):
            if catalog(cat, proj) is not None:
                out.append(('model', pl, sp, cat, proj))
        # the same probes after planners over other catalogs (same names, other roles) were used in the process
        for (pl, tpl, tabs), cat in itertools.product(POSITIONS, CATALOGS):
            out.append(('table@history', pl, 'lower', cat, 'mindsdb' if catalog(cat, 'mindsdb') is not None else 'proj'))
        for (pl, tpl, tabs, models), cat, proj in itertools.product(MODEL_POSITIONS, CATALOGS, ('mindsdb', 'proj')):
            if catalog(cat, proj) is not None:
                out.append(('model@history', pl, 'lower', cat, proj))
        # a bare table name that coincides with a model of the main project, default namespace = a data integration
        for i in range(len(BARE)):
            for cat in ('names_default_int1', 'legacy_dict_default_int1'):
                out.append(('bare', i, 'lower', cat, 'proj' if cat.startswith('legacy') else 'mindsdb'))
        for i in range(len(UNKNOWN_QUALIFIER)):
            for hist in (False, True):
                out.append(('unknown_qualifier', i, 'lower', 'names_default_int1', hist))
        return out

    def run_bare(self, res, i, cat, proj):
        """`pred` written without qualifier resolves to the default namespace (a data integration here): it is a table of int1, whatever
        models the projects own - no apply-predictor step, and it is fetched from int1"""
        sql = BARE[i]
        self.after_other_catalogs = False
        kw = catalog(cat, proj)
        if kw is None:
            return res
        res.key((sql, cat))
        k, plan = self.plan(sql, kw)
        if k != 'plan':
            res.count('bare_' + k)
            return res
        res.count('plans')
        steps = list(all_steps(plan.steps))
        for s_ in steps:
            if isinstance(s_, (S.ApplyPredictorStep, S.ApplyPredictorRowStep, S.GetPredictorColumns)):
                res.violation('bare-name-routed-to-a-model-although-it-resolves-to-the-default-data-integration',
                              f'{sql!r} [{cat}]: {type(s_).__name__}(namespace={s_.namespace!r}); `pred` resolves to the default namespace int1, whose table it is\n    {plan.steps}')
                return res
        where = set()
        for f in steps:
            if isinstance(f, S.FetchDataframeStep) and f.query is not None:
                leaves = []
                table_leaves(f.query, leaves)
                for leaf in leaves:
                    if str(leaf.parts[-1]) == 'pred':
                        where.add(str(f.integration).lower())
        if where != {'int1'}:
            res.violation('bare-name-not-fetched-from-the-default-namespace', f'{sql!r} [{cat}]: table pred is fetched from {sorted(where)}, expected int1\n    {plan.steps}')
        return res

    def plan(self, sql, kwargs):
        out = parsing.outcome(sql, 'mindsdb')
        if out.kind != 'ok':
            return 'notparsed', out
        if getattr(self, 'after_other_catalogs', False):
            role_swap_prelude()
        try:
            return 'plan', plan_query(out.value, **kwargs)
        except (PlanningException, NotImplementedError) as e:
            return 'unsupported', e
        except Exception as e:
            return 'internal', e

    def analyse(self, sql, plan, tabs, models, proj, cat, pl):
        """-> list of (signature, message) for one plan (no case/catalog comparisons)"""
        out = []
        steps = list(all_steps(plan.steps))
        fetches = [s for s in steps if isinstance(s, S.FetchDataframeStep)]
        mentions = collections_counter()
        wrong = False
        for f in fetches:
            leaves = []
            if f.query is not None:
                table_leaves(f.query, leaves)
            integ = str(f.integration).lower()
            for leaf in leaves:
                parts = [str(p) for p in leaf.parts]
                name = parts[-1]
                if name in ('pred', 'pred2'):
                    out.append((f'model-sent-to-integration|{pl}', f'{sql!r} [{cat}]: fetch on {f.integration} mentions model {".".join(parts)}'))
                    continue
                if name not in HOME:
                    continue     # cte names, aliases of sub-selects
                mentions[name] += 1
                if HOME[name] != integ:
                    wrong = True
                    out.append((f'table-sent-to-wrong-integration|{pl}', f'{sql!r} [{cat}]: table {name} (home {HOME[name]}) appears in the fetch sent to {f.integration}: {f.query}'))
                elif len(parts) > 1 and not (pl.startswith('schema_named_like_other_integration') and len(parts) == 2 and parts[0].lower() == 'int2'):
                    out.append((f'qualifier-not-removed|{pl}', f'{sql!r} [{cat}]: fetch on {f.integration} still names {".".join(parts)}'))
            if f.query is not None and not wrong:
                for idn, path in reflect.walk(f.query, want=lambda o: isinstance(o, A.Identifier)):
                    ps = [str(p).lower() for p in idn.parts]
                    if pl.startswith('schema_named_like_other_integration') and ps[:2] == ['int2', 't1']:
                        continue     # the schema part of the table name, not an integration qualifier
                    if len(ps) > 1 and ps[0] in ('int1', 'int2') and 'alias' not in [p for p in path if isinstance(p, str)]:
                        out.append((f'qualifier-not-removed|{pl}', f'{sql!r} [{cat}]: fetch on {f.integration} contains identifier {".".join(map(str, idn.parts))}'))
                        break
        # the filter of a DELETE is sent to the table's integration as well: no integration qualifier may stay in it
        for st in steps:
            if isinstance(st, S.DeleteStep) and st.where is not None:
                for idn, path in reflect.walk(st.where, want=lambda o: isinstance(o, A.Identifier)):
                    ps = [str(p).lower() for p in idn.parts]
                    if len(ps) > 1 and ps[0] in ('int1', 'int2'):
                        out.append((f'qualifier-not-removed|{pl}', f'{sql!r} [{cat}]: the filter of the delete step still names {".".join(map(str, idn.parts))}: {st.where}'))
                        break
        want = {}
        for t in tabs:
            want[t] = want.get(t, 0) + 1
        if not wrong:
            for t, n in want.items():
                if mentions.get(t, 0) != n:
                    out.append((f'table-not-fetched-exactly-once|{pl}', f'{sql!r} [{cat}]: table {t} is mentioned in {mentions.get(t, 0)} fetches, expected {n}\n    {plan.steps}'))
            for t in mentions:
                if t not in want:
                    out.append((f'unexpected-table-fetched|{pl}', f'{sql!r} [{cat}]: {t}'))
        msteps = [s for s in steps if isinstance(s, (S.ApplyPredictorStep, S.ApplyPredictorRowStep, S.GetPredictorColumns))]
        for (mname, version) in models:
            hits = [s for s in msteps if mname in [str(p) for p in s.predictor.parts]]
            if len([m for m in models if m[0] == mname]) > 1:
                # several references to this model: the one with this version (or without any)
                want_n = len([m for m in models if m == (mname, version)])
                hits = [s for s in hits if (version in [str(p) for p in s.predictor.parts]) if version is not None] if version is not None else \
                    [s for s in hits if not any(str(p).isdigit() for p in s.predictor.parts)]
                if len(hits) != want_n:
                    out.append((f'model-version-lost|{pl}', f'{sql!r} [{cat}]: {len(hits)} apply steps for model {mname} version {version}, expected {want_n}\n    {plan.steps}'))
                continue
            if len(hits) != 1:
                out.append((f'model-step-count|{pl}', f'{sql!r} [{cat}]: model {mname} has {len(hits)} apply steps\n    {plan.steps}'))
                continue
            s = hits[0]
            if str(s.namespace).lower() != proj:
                out.append((f'model-namespace|{pl}', f'{sql!r} [{cat}]: model {mname} applied in namespace {s.namespace!r}, expected {proj!r}'))
            parts = [str(p) for p in s.predictor.parts]
            if version is not None and version not in parts:
                out.append((f'model-version-lost|{pl}', f'{sql!r} [{cat}]: predictor identifier {parts} lost version {version}'))
            if version is None and any(p.isdigit() for p in parts):
                out.append((f'model-version-invented|{pl}', f'{sql!r} [{cat}]: predictor identifier {parts}'))
        seen = set()
        uniq = []
        for s, m in out:
            if s not in seen:
                seen.add(s)
                uniq.append((s, m))
        return uniq

    def run(self, case):
        res = Result()
        kind, pl, sp, cat, proj = case
        if kind == 'bare':
            return self.run_bare(res, pl, cat, proj)
        if kind == 'unknown_qualifier':
            sql, tname, parts = UNKNOWN_QUALIFIER[pl]
            self.after_other_catalogs = bool(proj)
            res.key((sql, cat, proj))
            k, plan = self.plan(sql, catalog(cat, 'mindsdb'))
            if k != 'plan':
                res.count('unknown_qualifier_' + k)
                return res
            res.count('plans')
            found = []
            for f in all_steps(plan.steps):
                if isinstance(f, S.FetchDataframeStep) and f.query is not None:
                    leaves = []
                    table_leaves(f.query, leaves)
                    found += [(str(f.integration).lower(), [str(x) for x in leaf.parts]) for leaf in leaves if str(leaf.parts[-1]) == tname]
            if found != [('int1', parts)]:
                res.violation('schema-qualified-table-of-the-default-namespace-routed-elsewhere' + ('|after-other-catalogs' if proj else ''),
                              f'{sql!r} [{cat}]' + (' after planners over other catalogs were used' if proj else '') + f': table {tname} is fetched as {found}, expected from int1 as {".".join(parts)}\n    {plan.steps}')
            return res
        self.after_other_catalogs = kind.endswith('@history')
        kind = kind.split('@')[0]
        if kind == 'table':
            tpl, tabs = next((t, tb) for l, t, tb in POSITIONS if l == pl)
            models = []
            tpl = tpl.replace('mindsdb.pred', proj + '.pred')       # the model of the position lives in the catalog's project
            sql = tpl.replace('{A}', SPELL[sp]('int2'))
            base_sql = tpl.replace('{A}', 'int2')
            probe = 'JOIN {A}' in tpl or '{A}.t2 JOIN' in tpl
        else:
            tpl, tabs, models = next((t, tb, m) for l, t, tb, m in MODEL_POSITIONS if l == pl)
            sql = tpl.replace('{M}', SPELL[sp](proj))
            base_sql = tpl.replace('{M}', proj)
            probe = 'JOIN {M}' in tpl or '{M}.pred JOIN' in tpl
        path = 'join-path' if probe else 'simple-path'
        res.key((sql, cat))
        k, plan = self.plan(sql, catalog(cat, proj))
        if k == 'notparsed':
            res.count('not_parsed')
            return res
        if k == 'internal':
            res.count('internal_error_(C09)')
            return res
        kb, pb = (k, plan) if sp == 'lower' else self.plan(base_sql, catalog(cat, proj))
        if k == 'unsupported':
            if kb == 'plan':
                res.violation(f'case-dependent|{kind}|{path}', f'{sql!r} [{cat}] raises {type(plan).__name__}: {str(plan)[:100]!r} while {base_sql!r} plans')
            else:
                res.count('unsupported_in_every_spelling')
            return res
        res.count('plans')
        mine = self.analyse(sql, plan, tabs, models, proj, cat, pl)
        base = dict(self.analyse(base_sql, pb, tabs, models, proj, cat, pl)) if (sp != 'lower' and kb == 'plan') else dict(mine)
        case_dep = False
        for sig, msg in mine:
            if sig in base:
                res.violation(sig, msg)
            else:
                case_dep = True
                first = msg
        if sp != 'lower' and kb == 'plan' and not case_dep and not mine and plan_shape(pb) != plan_shape(plan):
            case_dep = True
            first = f'{sql!r} vs {base_sql!r} [{cat}]: plans differ\n    {plan.steps}\n    {pb.steps}'
        if case_dep:
            res.violation(f'case-dependent|{kind}|{path}', first)
        # metamorphic: same plan under every catalog encoding
        if cat not in ('names_list', 'upper_names') and not mine:
            kc, pc = self.plan(sql, catalog('names_list', proj))
            if kc == 'plan' and not self.analyse(sql, pc, tabs, models, proj, cat, pl) and plan_shape(pc) != plan_shape(plan):
                res.violation(f'catalog-encoding-dependent|{kind}|{cat}|{path}', f'{sql!r}: plan under {cat} differs from the plan under names_list\n    {plan.steps}\n    {pc.steps}')
        return res

    def coverage(self, agg):
        return {'exhaustive': True, 'positions': [p[0] for p in POSITIONS], 'model_positions': [p[0] for p in MODEL_POSITIONS], 'spellings': list(SPELL),
                'catalogs': CATALOGS,
                'rule': 'full product position x qualifier spelling x catalog encoding (x project for models); distinct_nontrivial = distinct (SQL, catalog)'}

    def describe_case(self, case):
        return {'kind': case[0], 'position': case[1], 'spelling': case[2], 'catalog': case[3], 'project': case[4]}


def collections_counter():
    import collections
    return collections.Counter()

"""C19 - syntax errors point at the offending token; suggested keywords/symbols are acceptable there (mindsdb dialect).

Every rejected one-token deviation at every abstract parser state (= every reachable error cell of the
action table, with continuation), every truncation, and layout variants (newlines, indentation,
comments, leading blank lines) of one representative per state.  The text is generated, so token
positions are known; the offending token is the first token the recovery-free PDA over the live
tables cannot accept.
"""
import itertools
import re

from vf import gsx, parsing
from vf.runner import Check, Result

SEPS = {
    'nl': '\n', 'sp2': '  ', 'nl_indent': '\n    ', 'block': ' /* c */ ', 'line': ' -- c\n', 'block_nl': ' /* a\nb */ ', 'tab': '\t', 'nl2': '\n\n',
}
LEAD = {'none': '', 'ws': '   ', 'blank': '\n', 'blank_ws': '\n  ', 'comment': '/* c */ ', 'line_comment': '-- c\n'}
PLACEHOLDERS = ('[identifier]', '[number]', '[string]')
REWRITTEN = {'QUOTE_STRING', 'DQUOTE_STRING', 'VARIABLE', 'SYSTEM_VARIABLE'}


def nows(s):
    return re.sub(r'\s+', '', s)


def parse_message(msg):
    lines = msg.split('\n')
    out = {'header': lines[0], 'shown': [], 'caret': None, 'suggest': None}
    for ln in lines[1:]:
        if ln.startswith('>'):
            out['shown'].append(ln)
        elif out['caret'] is None and re.fullmatch(r'-+\^+', ln):
            out['caret'] = ln
        elif ln.startswith('Possible inputs: ') or ln.startswith('Expected symbol: '):
            body = ln.split(': ', 1)[1]
            out['suggest'] = re.findall(r'"((?:[^"]|"(?=[^,]|$))*?)"(?:, |$)', body)
            if not out['suggest']:
                out['suggest'] = [x.strip('"') for x in body.split(', ')]
        else:
            out.setdefault('other', []).append(ln)
    return out


class CHECK(Check):
    pid = 'C19'
    level = 'model_checking'
    assumptions = ['token source positions are the live lexer\'s index/end on generated text; line/column are recomputed from the text',
                   'only token texts are compared between shown and source lines (the reporter may re-space and blank comments)',
                   'placeholders [identifier] [number] [string] are not concrete keywords/symbols and are not judged',
                   '"parser can accept s at that point" = the recovery-free PDA consumes s from the configuration at the error']

    def setup(self, tier, seed):
        self.tier, self.seed = tier, seed
        self.m = gsx.Model('mindsdb')
        self.fam = gsx.Families(self.m, 1)
        self.fam2 = gsx.Families(self.m, 2) if tier == 'thorough' else None

    def cases(self):
        m = self.m
        out = []
        reps = {}
        for fam in [self.fam] + ([self.fam2] if self.fam2 else []):
            for a, (pre, stk) in fam.ex['states'].items():
                c = fam.comp[a] or ()
                for t in m.terminals:
                    for seq in (pre + (t,) + c, (pre + (t,) + c[1:]) if c else None):
                        if seq is None or any(x not in m.lexeme for x in seq):
                            continue
                        if m.simulate(seq)[0]:
                            continue
                        out.append(('seq', seq, 'none', ()))
                        if fam is self.fam and a not in reps and len(pre) >= 1:
                            reps[a] = seq
                if pre and not m.simulate(pre)[0] and all(x in m.lexeme for x in pre):
                    out.append(('seq', pre, 'none', ()))
                    if fam is self.fam:
                        reps.setdefault(('trunc', a), pre)
        # truncations with one more level of left context (every k=2 between-token configuration): end-of-query messages
        if self.fam2 is None:
            ex2 = m.explore(2)
            self.k2_states = len(ex2['states'])
            by_top = {}
            for a, (pre, stk) in ex2['states'].items():
                if pre and all(x in m.lexeme for x in pre) and not m.simulate(pre)[0]:
                    out.append(('seq', pre, 'none', ()))
                    by_top.setdefault(stk[-1], []).append(pre)
            # the same truncations, each judged after another truncation that stops in the same parser state (reached through a
            # different left context) was rejected earlier in the process: a message may depend on the text at hand only
            for top, pres in by_top.items():
                if len(pres) > 1:
                    for i, pre in enumerate(pres):
                        out.append(('seq@after', pre, 'none', (), pres[i - 1]))
        # lexeme-rewritten tokens as the offending / preceding token
        for a, (pre, stk) in self.fam.ex['states'].items():
            for alt in ("'it''s'", '"a\\"b"', '@v', "@'a b'", '@@sv', "''"):
                if all(x in m.lexeme for x in pre):
                    out.append(('text', m.text_of(pre) + ' ' + alt + ' ' + alt, 'none', ()))
        # layouts on representatives
        maxdev = 2 if self.tier == 'thorough' else 1
        for key, seq in reps.items():
            n = len(seq)
            for lead in LEAD:
                if lead != 'none':
                    out.append(('seq', seq, lead, ()))
            positions = list(range(1, n))
            for p in positions:
                for s in SEPS:
                    out.append(('seq', seq, 'none', ((p, s),)))
            if maxdev >= 2 and n <= 8:
                for (p1, p2) in itertools.combinations(positions, 2):
                    for s1 in ('nl', 'block_nl', 'line', 'nl_indent'):
                        for s2 in ('nl', 'block', 'line', 'sp2'):
                            out.append(('seq', seq, 'none', ((p1, s1), (p2, s2))))
                for lead in ('blank', 'blank_ws', 'line_comment'):
                    for p in positions:
                        for s in ('nl', 'block_nl', 'line'):
                            out.append(('seq', seq, lead, ((p, s),)))
        # long statements: an error at the end of a pumped list (the reporter re-parses the statement for every candidate suggestion)
        for n in (3, 40, 2500):
            rows = ', '.join(['(1, 2)'] * n)
            cols = ', '.join(['a'] * n)
            conj = ' and '.join(['a = 1'] * n)
            for text in (f'insert into t values {rows} (1, 2)', f'insert into t values {rows}, (1, 2) (3)', f'insert into t values {rows},, (1, 2)',
                         f'select {cols} b c from t', f'select {cols},, a from t', f'select {cols} from t where {conj} and and a = 1',
                         f'select {cols} from t where {conj} a = 1', f'select * from t where a in ({cols} a)', f'select f({cols} a) from t',
                         ' union '.join(['select 1'] * n) + ' union union select 1', f'select * from t order by {cols} a b',
                         f'create table t ({", ".join(["a int"] * n)} b int)', f'select {cols} from t group by {cols} having a a'):
                out.append(('text', text, 'none', ()))
        # illegal character after a token that spans a line break (multi-word keywords, quoted strings / names with a newline inside,
        # comments spanning lines)
        spanning = ["'a\nb'", '"a\nb"', '`a\nb`', "@'a\nb'", '/* a\nb */ x', '-- c\nx', "'a\n\nb'"]
        for t in m.terminals:
            sp = m.lexeme.get(t)
            if sp and ' ' in sp:
                cand = sp.replace(' ', '\n')
                try:
                    if m.lex_types(cand) == [t]:
                        spanning.append(cand)
                except parsing.LexError:
                    pass
        for tok in spanning:
            for ch in ('#', '^', '\\'):
                for pre in ('', 'select a from t where a ', 'select\n a\nfrom t where a '):
                    for gap in (' ', '\n', ' x '):
                        out.append(('illegal_text', pre + tok + gap + ch + ' y', ch, None))
        # illegal characters
        for key, seq in list(reps.items())[:200]:
            for ch in ('#', '^', '&', '|', '!', '\\', 'é'):
                for p in range(0, len(seq) + 1):
                    for sepk in ('sp', 'nl'):
                        out.append(('illegal', seq, ch, (p, sepk)))
            # other line-break conventions between the tokens (CR LF, a bare CR, tab + line feed)
            for ch in ('#', '^'):
                for p in range(0, len(seq) + 1):
                    for sepk in ('crlf', 'cr', 'tabnl'):
                        out.append(('illegal', seq, ch, (p, sepk)))
        return out

    def build(self, case):
        kind, seq, lead, devs = case[:4]
        m = self.m
        if kind in ('text', 'illegal_text'):
            return seq
        if kind == 'illegal':
            ch, (p, sepk) = lead, devs
            parts = [m.lexeme[t] for t in seq]
            parts.insert(p, ch)
            return {'nl': '\n', 'sp': ' ', 'crlf': '\r\n', 'cr': '\r', 'tabnl': '\t\n'}[sepk].join(parts)
        parts = [m.lexeme[t] for t in seq]
        seps = [' '] * (len(parts) - 1)
        for p, s in devs:
            seps[p - 1] = SEPS[s]
        text = LEAD[lead] + parts[0]
        for s, p in zip(seps, parts[1:]):
            text += s + p
        return text

    def run(self, case):
        res = Result()
        m = self.m
        text = self.build(case)
        kind = case[0]
        if kind == 'seq@after':
            parsing.outcome(m.text_of(case[4]), 'mindsdb')      # the earlier, rejected statement of the same process
            kind = 'seq'
        layout = 'default' if kind == 'text' or (case[2] == 'none' and not case[3]) else 'layout'
        out = parsing.outcome(text, 'mindsdb')
        if kind in ('illegal', 'illegal_text'):
            return self.run_illegal(res, case, text, out)
        if out.kind != 'perr':
            res.count('not_a_parsing_error_' + out.kind)
            return res
        if not out.is_syntax_error:
            res.count('semantic_veto')
            return res
        stripped = parsing.strip_tail(text)
        toks = m.lex(stripped)
        types = [t.type for t in toks]
        if not types:
            res.count('empty_input')
            return res
        stack = (0,)
        err = None
        for i, t in enumerate(types):
            nxt = m.step(stack, t)
            if nxt is None or nxt == 'accept':
                err = i
                break
            stack = nxt
        if err is None:
            if m.step(stack, gsx.END) == 'accept':
                res.violation('conformance|pda-accepts-impl-syntax-error', f'{text!r}: {str(out.exc)[:100]!r}')
                return res
            err = len(types)
        msg = parse_message(str(out.exc))
        res.count('judged')
        res.key((msg['header'], msg['caret'], tuple(msg['suggest'] or ())))
        res.covered('error_cells', (stack[-1], types[err] if err < len(types) else gsx.END))
        feats = self.features(case, stripped, toks, err)
        # ---- header
        want_header = 'Syntax error, unexpected end of query:' if err == len(types) else 'Syntax error, unknown input:'
        if msg['header'] != want_header:
            res.violation(f'header|{feats}', f'{text!r}: header {msg["header"]!r}, offending token index {err} of {len(types)}')
            return res
        if not msg['shown'] or msg['caret'] is None:
            res.violation(f'format|no-source-or-caret-line|{feats}', f'{text!r}: message {str(out.exc)!r}')
            return res
        # ---- location
        shown = msg['shown'][-1]
        caret = msg['caret']
        above = ''.join(shown[i] if i < len(shown) else '' for i, c in enumerate(caret) if c == '^')
        if err < len(types):
            tok = toks[err]
            src = stripped[tok.index:tok.end]
            if above != src:
                res.violation(f'location|caret-not-on-offending-token|{feats}',
                              f'{text!r}: offending token #{err} {src!r}; carets stand over {above!r}\n' + str(out.exc))
        else:
            last = toks[-1]
            # caret just past the last token: everything before the caret on the shown line ends with the last token's text
            pos = caret.index('^')
            before = shown[1:pos]
            lastsrc = stripped[last.index:last.end].split('\n')[-1]
            if caret.count('^') != 1 or not before.endswith(lastsrc) or above.strip() != '':
                res.violation(f'location|eof-caret-not-after-last-token|{feats}', f'{text!r}: last token {lastsrc!r}\n' + str(out.exc))
        # ---- reproduction of source lines
        line_of = lambda idx: stripped.count('\n', 0, idx)
        by_line = {}
        for t in toks:
            by_line.setdefault(line_of(t.index), []).append(stripped[t.index:t.end])
        errline = line_of(toks[err].index) if err < len(types) else line_of(toks[-1].index)
        tok_lines = sorted(l for l in by_line if l <= errline)
        want_lines = tok_lines[-len(msg['shown']):]
        ok = len(want_lines) == len(msg['shown'])
        if ok:
            for l, sh in zip(want_lines, msg['shown']):
                if nows(''.join(by_line[l])) != nows(sh[1:]):
                    ok = False
        if not ok:
            res.violation(f'reproduction|shown-lines-differ-from-source|{self.features(case, stripped, toks, err, whole_lines=True)}', f'{text!r}\n' + str(out.exc))
        # ---- suggestions
        for s in msg['suggest'] or ():
            if s in PLACEHOLDERS:
                res.count('placeholder_suggestions')
                continue
            try:
                st = m.lex_types(s)
            except parsing.LexError:
                st = None
            if not st or len(st) != 1:
                res.violation(f'suggestion|not-a-single-token|{s}', f'{text!r}: suggestion {s!r} lexes as {st!r}')
                continue
            res.count('concrete_suggestions')
            if m.step(stack, st[0]) is None:
                mode = 'eof' if err == len(types) else ('single' if len(msg['suggest']) == 1 else 'filtered')
                res.violation(f'suggestion|not-acceptable-here|{mode}|{st[0]}', f'{text!r}: suggests {s!r} but the parser cannot accept {st[0]} before/instead of token #{err}\n' + str(out.exc))
        return res

    def features(self, case, text, toks, err, whole_lines=False):
        """the lexeme / layout feature that locates the reporter code path (used in signatures): the most
        specific applicable one of rewritten-token, multiline-comment, then plain layout features"""
        end = toks[err].end if err < len(toks) else len(text)
        if whole_lines:
            nl = text.find('\n', end)
            end = len(text) if nl < 0 else nl
        upto = [t for t in toks if t.index < end]
        if any(t.type in REWRITTEN for t in upto):
            return 'rewritten-token'
        seg = text[:end]
        if re.search(r'/\*[^*]*\n[^*]*\*/', text if whole_lines else seg):
            return 'multiline-comment'
        f = []
        if '/*' in seg or '--' in seg:
            f.append('comment')
        if '\n' in seg.strip():
            f.append('multiline')
        if text[:1].isspace():
            f.append('leading-ws')
        if '  ' in seg.strip() or '\t' in seg:
            f.append('wide-gap')
        return '+'.join(f) or 'plain'

    def run_illegal(self, res, case, text, out):
        if out.kind != 'lexerr':
            res.count('illegal_not_lexerr_' + out.kind)
            return res
        res.count('judged_illegal')
        msg = str(out.exc).split('\n')
        ch = case[2]
        stripped = parsing.strip_tail(text)
        pos = stripped.rindex(ch + ' y') if case[0] == 'illegal_text' else stripped.index(ch)
        line_no = stripped.count('\n', 0, pos)
        src_line = stripped.split('\n')[line_no]
        col = pos - (stripped.rfind('\n', 0, pos) + 1)
        res.key(('illegal', msg[0], msg[-1]))
        feats = ('first-line' if line_no == 0 else 'later-line') + ('+multiline' if '\n' in stripped else '') + ('+after-spanning-token' if case[0] == 'illegal_text' else '')
        if msg[0] != f'Illegal character {ch!r}:':
            res.violation(f'lexer|names-wrong-character|{feats}', f'{text!r}: {msg[0]!r}')
            return res
        shown = [l for l in msg[1:] if l.startswith('>')]
        caret = msg[-1]
        if not shown or shown[-1][1:] != src_line:
            res.violation(f'lexer|source-line-not-shown|{feats}', f'{text!r}: expected last shown line {src_line!r}\n' + str(out.exc))
            return res
        if not re.fullmatch(r'-+\^', caret) or caret.index('^') != col + 1:
            res.violation(f'lexer|caret-misplaced|{feats}', f'{text!r}: column {col}\n' + str(out.exc))
        return res

    def coverage(self, agg):
        fams = [self.fam] + ([self.fam2] if self.fam2 else [])
        return {'exhaustive': True, 'states': sum(len(f.ex['states']) for f in fams), 'transitions': sum(f.ex['edges'] for f in fams),
                'traces_validated_against_impl': agg['n'], 'error_cells_reported_on': len(agg['cover'].get('error_cells', ())),
                'separators': list(SEPS), 'leads': list(LEAD),
                'rule': 'every rejected insert/replace deviation with every terminal at every abstract state + truncations at every k=1 and k=2 configuration (default layout); one '
                        'representative per state x every single separator deviation at every position x leads (thorough: pairs); illegal characters '
                        'at every position of 200 representatives and after every token that can span a line break; errors at the end of pumped lists (3, 40, 2500 elements); distinct_nontrivial = distinct (header, caret line, suggestions)'}

    def describe_case(self, case):
        d = {'kind': case[0], 'text': self.build(case)}
        if case[0] == 'seq@after':
            d['statement_rejected_before_in_the_same_process'] = self.m.text_of(case[4])
        return d

#!/usr/bin/env python3
"""Regenerates /verif/MANIFEST.json from the table below (kept in one place so it stays valid)."""
import json
import os

ROOT = os.path.dirname(os.path.dirname(os.path.abspath(__file__)))

def C(level, engine, technique, text, note, ref):
    return dict(level=level, engine=engine, technique=technique, text=text, note=note, ref=ref)


GSX_T = 'explicit-state exploration of the live LALR automaton (BFS over between-token configurations abstracted to the top-k stack suffix, every terminal tried in every state); every witness sentence replayed through the real parse_sql'
BEX = 'bounded exhaustive enumeration of a finite input space, each case run against the real code and judged by an independent reference'

HIST_T = 'exhaustive two-step call histories (all ordered pairs of a corpus) on the real code, each observation compared with a reference computed in a process forked from a clean interpreter'

CHECKS = {
    'C01': C('model_checking', 'GSX', GSX_T + '; oracle: print -> re-parse -> compare trees, print again (fix-point), copy()',
             'Every accepted sentence of the edge cover, production-pair cover and production-triple cover (expression leaves as identifiers and as integers) of the three live grammars; one lexeme respelling at a time (quotes, backslashes, keywords and keyword-like names with $ as identifiers, quoted variables incl. line breaks, numbers); one-token-per-line layout; every keyword as identifier in 8 contexts; USING-list family; every raw-query command x lexeme sequences of length <=2 x 5 layouts + multi-line bodies. Sibling-pair cover (every two nonterminal positions of a production x every pair of expansions, so both elements of two-element lists range over all alternatives), and every sentence also spelt with all names equal (name coincidences between clauses). ~1.7 M round trips in the quick tier.',
             'to_tree() is taken as tree identity; bounded to one respelling per sentence (thorough: k=2 states, every keyword at the first identifier of every sentence, string leaves). 280 printer defects of the pinned tree are listed as known findings by signature.', 'DESIGN.md 3/C01, 9.6, 9.7'),
    'C02': C('model_checking', 'GSX', GSX_T + '; plus exhaustive short strings / token pairs / size ladder / pumping family',
             'Every reachable cell of the three action tables (valid and error cells), every production pair and triple, every one-token deviation at every abstract parser state, all strings of length <=3 over a 31-character alphabet, all token pairs, lexeme respellings, USING-list family, keywords respelt with non-ASCII letters that case-fold onto ASCII, a size ladder and a pumping family, one code point per Unicode general category (+ unnamed, surrogate and oddly classified characters) in 20 lexical contexts, a length ladder (10 ... 20000 characters) for integers / decimals / names / literals / comments, the sibling-pair cover (19 openers x units of length <=2 over 16 characters x N in {16, 64}, open and closed) are replayed through parse_sql; any outcome other than tree / ParsingException / LexError, or no outcome within 20 s, is a violation. ~3.0 M parses in the quick tier.',
             'Bounded: one (thorough: two) token deviations, strings <=3 chars, nesting <=100, pump length 64 (thorough 256); the per-case 20 s guard stands for termination.', 'DESIGN.md 3/C02, 2/E1'),
    'C03': C('exploration', 'GSX+SQLREF', BEX + ': all operator trees up to a size bound, printed with minimal parentheses; structural oracle + sqlite evaluation over {NULL,0,1,2}',
             'All operator trees with <=2 operator nodes over all listed operators (with every redundant parenthesis pair, and with every blank of the text as line break / tab / two blanks), 3 nodes over precedence-class representatives (thorough: all operators, 4 over representatives), in up to 6 expression contexts per dialect. The parsed expression must equal the generating tree node for node, parentheses flags exact; the generator itself is cross-checked by evaluating minimal vs fully parenthesised text in sqlite.',
             'Standard SQL precedence as stated in the property; sqlite agrees with it on the generated subset.', 'DESIGN.md 3/C03'),
    'C04': C('exploration', 'GSX lexemes', BEX + ': all literal bodies up to length 3 (thorough 4) over a collision alphabet and up to 4 escape units, numbers, identifier paths; independent denotation scanner; both directions',
             'Decode and encode directions over the same value space (incl. 11 whitespace-like / invisible characters, double-quoted path parts, exponent-range floats, variable names with line breaks); a text is judged only when the live lexer tokenises it as one literal. The denotation is written from the lexical rules the dialect commits to and accepts both readings where SQL dialects disagree.',
             'Trusts the live lexer for "is one literal"; alphabets chosen one per replace()/strip() shortcut in the code.', 'DESIGN.md 3/C04'),
    'C05': C('model_checking', 'GSX', GSX_T + '; membership oracle = recovery-free PDA over live tables + Earley recogniser over live productions',
             'For every abstract parser state and every terminal (insert / replace / delete / truncate; each also with one token per line), every statement concatenation in 9 layouts and with a line break at every position, statement x every sequence of <=2 separator atoms (semicolon, blank, line break, line / block comments) x statement or garbage x 12 tails, and every valid edge/production-pair sentence, parse_sql is run and every accepted text must be a sentence of the grammar according to two independent recognisers. Covers every reachable error cell of the action tables, which is where recovery could resynchronise.',
             'Trusts the live lexer for the token stream; bounded to one (thorough: two, and k=2 states) token deviations from witness sentences.', 'DESIGN.md 3/C05, 2/E1'),
    'C06': C('exploration', 'QGEN+SQLREF', BEX + ': feature-model enumeration of statements (<= d non-default features + full products) x all small databases; differential execution in sqlite with an answer-set oracle',
             'Original text and SQLAlchemy rendering (sqlite, mysql, postgresql targets) are executed on identical databases for every statement and every database within the bound; rows, order where the query fixes it (ties and LIMIT judged by the set of legal answers), explicit aliases and DML/DDL effects (table contents with storage classes) must agree. Join feature includes every three-table chain over (kind, condition?) pairs. Generated DML: UPDATE set shape x WHERE shape, DELETE x WHERE shape, INSERT column list x value kinds (incl. strings with backslash / quote / percent / colon) x row count, INSERT ... SELECT x the SELECT model; effects compared inside rolled-back transactions on every database. Every SELECT is also rendered by a renderer object with a fixed history of other (partly unsupported) statements; sub-queries that read the outer table again un-aliased; ORDER BY by output position. Failures are minimised to the smallest failing feature set.',
             'sqlite 3.40 as reference engine; dialect-divergent operators excluded; mssql/oracle output is not executable here.', 'DESIGN.md 3/C06'),
    'C07': C('exploration', 'literal scanners', BEX + ': all strings up to length 3 (thorough 4) over a collision alphabet + other constant types x 7 tree positions x 6 renderings; per-target lexical scanner + sqlite / library read-back; all ordered pairs of twin values',
             'The rendering with value v must have the same token skeleton as the rendering with a benign value and its literal must denote v under the target lexical rules (to_string literals are also read back by the live lexer). All ordered pairs of 18 twin values (0/False/0.0, 1/True/1.0/"1", ...) as two constants of one statement (7 positions) and as two statements on one renderer object must be written exactly as each is written alone by a new renderer. Temporal values are a boundary product (date x time of day x every sub-second digit position), numbers a product mantissa x decimal exponent x sign plus machine-word boundaries.',
             'Target lexical rules written from documentation (mysql backslash escapes; standard quoting elsewhere).', 'DESIGN.md 3/C07'),
    'C08': C('exploration', 'QGEN+PLANX+SQLREF', BEX + ': feature-model enumeration of federated queries x catalog shapes x all small databases; plans interpreted by an independent reference interpreter written from the step docstrings, compared with sqlite running the original text',
             'Each plan is interpreted step by step on every database (NULLs, duplicates, unmatched keys, empty tables) and must return a legal answer of the original query. 32 query shapes (joins, three-table key chains, sub-queries incl. cross-integration joins inside them, set operations, CTEs incl. name collisions, derived tables with LIMIT/OFFSET/DISTINCT) x 9 join kinds x 23 ON shapes x 37 WHERE shapes ...; join kind x every pushdown source is a full product. A fetch that names a table of another integration cannot be carried out. Also: a CTE over another integration referenced only from a sub-query (6 shapes, incl. one named like a real table), and constant-first comparisons for every binary operator (incl. LIKE / NOT LIKE / IN) on either side. Chains of two set operations (13 operator pairs), selects over a derived table with outer sub-queries on another integration, databases with whole rows duplicated in one table only; the same statement planned twice on one QueryPlanner must give the same plan (a differing second plan is interpreted too). Failures are minimised to the smallest failing feature set.',
             'sqlite as reference engine; step meaning = docstrings as implemented in vf/planx.py; predictor-free queries.', 'DESIGN.md 3/C08, 2/E3'),
    'C09': C('exploration', 'QGEN+GSX+REFLECT', BEX + ': all planner inputs of the query models + every accepted GSX sentence rooted in a plannable statement under naming schemes x catalogs; reflective scan of every Result reference; ' + HIST_T,
             'Numbering, forward-only references (including sub-steps of map-reduce / multi-step containers and Parameter(Result) inside embedded queries), answer-producing last step and the exception contract are checked on every emitted plan, also on the second plan of every two-step history (same process / same planner object) over a planner corpus. Every fetch / apply step has to feed the last step (dataflow reachability). Inputs include the sibling-pair cover of the grammar.',
             'Bounded by the query models and grammar covers; ~125k planner inputs in the quick tier.', 'DESIGN.md 3/C09'),
    'C10': C('exploration', 'REFLECT', BEX + ': full product table/model position x qualifier spelling x catalog encoding; independent resolver + metamorphic comparison across spellings and encodings',
             'Every table position the property lists (46, incl. sub-queries / CTEs / derived tables with a cross-integration join, qualified columns in DML, CTEs named like a foreign table) and 14 model positions (incl. two versions of one model in one statement) are probed with every qualifier spelling under every catalog encoding; star targets qualified with the integration in 7 positions; all probes repeated after planners over role-swapped catalogs were used in the process; bare table names that coincide with a model and unknown qualifiers under a data integration as default namespace; fetch queries and delete filters are scanned reflectively for table mentions and qualifiers.',
             '46 table positions, 14 model positions, 5 spellings, 5 catalog encodings.', 'DESIGN.md 3/C10'),
    'C11': C('exploration', 'QGEN+PLANX+SQLREF', BEX + ': the C06 SELECT feature model restricted to one integration + alias/qualifier/star/CTE-name collision shapes; structural and executed comparison',
             'Plan must be a single fetch whose tree equals the original minus the qualifier and which returns the same rows and column names on every database. The integration is also given 10 other names (containing files / views / mindsdb / information_schema, or spelt with capitals in the catalog), and column names that need quoting (dot, blank, keyword, capitals, leading digit, non-ASCII) are placed in 8 positions. Catalogs with class_type None / sql; the extra shapes repeated after planners over role-swapped catalogs.',
             'sqlite as reference engine.', 'DESIGN.md 3/C11'),
    'C12': C('model_checking', 'history BFS', 'explicit-state breadth-first search over prepare / feed / info / execute call histories on one planner object + exhaustive enumeration of placeholder subsets of statement templates',
             'Every subset of <=3 literal slots of 42 templates (every expression position the property lists, incl. select list together with positions inside FROM / CTE bodies / EXISTS / three-way unions) is bound through get_query_params/fill_query_params and through prepare_steps/execute_steps and compared with inline literals on a fresh planner; 96 generated SELECT templates carry every subset of the optional clauses (HAVING without GROUP BY ...) over a table / join / derived table; a refused wrong-count execution must leave the prepared statement executable with the plan of the inline statement; every slot is bound to every kind of value (booleans, NULL, float, strings, negative / large integers) and compared with the inline literal; all call histories of depth 3 (thorough 4) over 6 operations are explored per template and the stated transitions judged.',
             'Prepare steps are answered with "unknown"; history state abstraction = (operation, outcome).', 'DESIGN.md 3/C12'),
    'C13': C('exploration', 'GSX+REFLECT', BEX + ': every accepted GSX sentence (edge, production-pair and production-triple cover) rooted in a query/DML/CREATE TABLE statement with numbered lexemes; reflective ground truth; one replacing traversal per visited node',
             'Visit-once, textual order, is_table/is_target flags and exact replacement (every slot through which the object is reachable must receive the returned node; the returned node rotates through identifier, empty tuple, 0, empty string, NULL) are judged against a reflective walk of the object graph for every node kind in every position the grammars can build. A raw python value handed to the visitor (text inside an INTERVAL, a list) is a violation; sibling-pair cover included. The visitor must not be called below a node it returned (also when it returns the node itself).',
             'Required/tolerated node classes as listed in DESIGN.md.', 'DESIGN.md 3/C13'),
    'C14': C('exploration', 'QGEN+REFLECT', BEX + ': feature-model enumeration of table-model joins (shape x WHERE shape x alias x USING x catalog) with a structured ground-truth description per query',
             'Apply-step count and input, row_dict, pushed filters, USING params and columns_map are compared with the generator description; 24 shapes (incl. ON clauses with extra / OR / NOT / constant-first conditions, tables and sub-selects joined after the model), 28 WHERE shapes, 8 USING forms, 9 catalogs; boolean context x condition owner is a full product. Two aliased models (with a table between), per-model partition sizes / options, catalogs whose two models predict different columns; shape x WHERE x catalog is a full product; every statement is also planned after two other statements of the process; semi-join filters (col IN <result>) are judged against the ON equalities of the statement. 10 more ON clauses of a model join (function, NOT, OR, BETWEEN, sub-query ...), look-alike conjuncts on a model and a table column, table conditions with a model column as operand.',
             'Conditions on model columns under OR/NOT/functions are recorded, not judged.', 'DESIGN.md 3/C14'),
    'C15': C('exploration', 'PLANX+SQLREF', BEX + ': full product of time conditions x partition filters x window x group columns x side x LIMIT, interpreted on ALL table contents with <=3 (thorough 4) rows',
             'The dataframe handed to the time-series model is computed by interpreting the plan and compared with the specification evaluated directly on the table (ties: any maximal choice); 16 unsupported shapes must be rejected. The WHERE conjuncts are also arranged as 9 other AND trees (order, nesting, parentheses; partition filter on two columns); unsupported clauses written inside a data sub-select must be refused or carried out, never dropped. Boundary windows 0 and 5; the second plan of each statement on a reused QueryPlanner is judged.',
             'sqlite runs the per-partition fetches; 286 (thorough 1001) table contents.', 'DESIGN.md 3/C15'),
    'C16': C('exploration', 'GSX lexemes', BEX + ': all balanced lexeme sequences of length <=3 (thorough 4) over a 38-lexeme collision alphabet x 15 embedding commands x 5 layouts, plus every accepted grammar sentence as inner query',
             'Source slices of the live lexer tokens of inner text and stored text must be equal and both must parse to the same tree. Twin lexemes (one name as identifier / @variable / @@variable / each quoted form): all sequences of <=2, and each embedded after each other one was lexed by an earlier statement of the same process. Spellings of literals other SQL dialects have (dollar quoting, prefixed strings, hex / exponent numbers) in sequences of <=2.',
             'Equality up to whitespace and comments = equality of token source slices.', 'DESIGN.md 3/C16'),
    'C17': C('exploration', 'GSX+REFLECT', BEX + ': every accepted production-pair sentence of the three grammars (incl. unsupported shapes) x 7 dialect names x 2 methods x fallback on/off, on renderers with a history and on new renderers',
             'Exception contract and non-mutation (reflective fingerprint) on every tree the parsers can produce within the grammar covers; every answer of a renderer that has rendered other statements (both call orders) must equal the answer of a new renderer.',
             'Quick: production-pair cover; thorough adds edge cover and lexeme respellings.', 'DESIGN.md 3/C17'),
    'C18': C('exploration', 'GSX+REFLECT', BEX + ': every accepted production-pair sentence x every single mutation of every mutable object of a copy; identity-set and fingerprint oracles; equality laws on trees, steps, plans and plan variants',
             'copy()/deepcopy independence is checked by mutating every attribute / list / dict of a copy and fingerprinting the original; equality laws against 9 partner kinds; every plan against its prefix / extended / swapped / replaced-step variants (equal plans must print the same). Edge-case respellings of names and literals (edge blanks, inner dots, capitals) on every production-pair sentence; sibling-pair cover included.',
             'Plans come from a fixed two-integration catalog.', 'DESIGN.md 3/C18'),
    'C19': C('model_checking', 'GSX', GSX_T + '; oracle: generated text positions + recovery-free PDA for the offending token and for acceptability of suggestions',
             'Every rejected one-token deviation at every abstract state (all reachable error cells) plus layout variants of one representative per state, illegal characters at every position and after every token that can span a line break, and errors at the end of pumped lists (3, 40, 2500 elements). Every end-of-query truncation is also judged after another truncation that stops in the same parser state was rejected in the process. Illegal characters also in texts with CR LF / bare CR / tab + LF line breaks.',
             'Only token texts are compared between shown and source lines; placeholders are not judged.', 'DESIGN.md 3/C19'),
    'C20': C('model_checking', 'SCHED', 'stateless schedule exploration of real threads under a cooperative scheduler (sys.monitoring scheduling points, iterative preemption bounding, every simple global restored to its import-time value before each schedule) + explicit-state BFS over call histories with global-state fingerprints + ' + HIST_T + ' + finite hash-seed sweep',
             'All schedules with <=1 preemption for 21 colliding call pairs (bound 2 at coarse granularity for 4 pairs; LINE granularity in named functions), all call histories of depth 3 over 25 operations sharing catalog and renderer objects, all ordered pairs of a planner corpus as process histories and on one reused QueryPlanner, an order differential (the one-token deviations of every parser state parsed front-to-back and back-to-front in two fresh processes must be answered alike), read-only calls (str, repr, ==, copy, walk) on the tree before planning / rendering, planner-reuse histories under a catalog without default namespace, an order differential over planner inputs, all ordered pairs of 192 renderer operations (renderers made by dialect name / dialect class / shared), seeds 0..3 in fresh interpreters (thorough: bound 2 for all pairs, triples, depth 4, full corpus, 34 seeds). Every observation must equal the fresh reference.',
             'Scheduling points are function boundaries of repository code; hash seeds are a finite sweep, not exhaustive; free-running pass is sampling.', 'DESIGN.md 3/C20, 2/E5'),
}

NOT_YET = {}


def main():
    props = [json.loads(l) for l in open(os.path.join(ROOT, 'properties.jsonl'))]
    checks = []
    na = []
    for p in props:
        pid = p['id']
        c = CHECKS.get(pid)
        if c is None:
            na.append({'property_id': pid, 'reason': NOT_YET.get(pid, 'check not built yet in this session (work in progress, see DESIGN.md build order)')})
            continue
        checks.append({
            'property_id': pid,
            'quick_cmd': f'./check {pid} --tier quick',
            'thorough_cmd': f'./check {pid} --tier thorough',
            'evidence_file': f'/verif/evidence/{pid}.json',
            'replay_cmd_template': f'./check {pid} --replay {{path}}',
            'engine': c['engine'],
            'level_claimed': {'category': c['level'], 'text': c['text'], 'design_ref': c['ref']},
            'level_note': c['note'],
            'technique': c['technique'],
        })
    man = {
        'version': 1,
        'setup_cmd': 'true',
        'hooks': {
            'guard': 'MINDSDB_SQL_VERIF',
            'enable': 'no source hooks are needed: models are read from the live parser objects and scheduling points come from sys.monitoring; ./check exports MINDSDB_SQL_VERIF=1 for uniformity',
            'baseline_off_cmd': 'cd /repo && env -u MINDSDB_SQL_VERIF /venv/bin/python -m pytest -ra -q -p no:cacheprovider --timeout=900 --continue-on-collection-errors',
            'source_commits': [],
            'add_only': True,
        },
        'engines': [
            {'name': 'GSX', 'path': '/verif/vf/gsx.py', 'serves_properties': ['C01', 'C02', 'C03', 'C04', 'C05', 'C09', 'C13', 'C16', 'C17', 'C18', 'C19'],
             'kind_free_text': 'grammar-space explorer: PDA over the live SLY tables, BFS over abstract configurations, completions, Earley recogniser'},
            {'name': 'SQLREF', 'path': '/verif/vf/sqlref.py', 'serves_properties': ['C03', 'C06', 'C08', 'C11', 'C15'], 'kind_free_text': 'sqlite reference engine, database enumerator, answer-set oracle'},
            {'name': 'PLANX', 'path': '/verif/vf/planx.py', 'serves_properties': ['C08', 'C11', 'C15'], 'kind_free_text': 'reference interpreter for plan steps + own AST->sqlite printer'},
            {'name': 'QGEN', 'path': '/verif/vf/qgen.py', 'serves_properties': ['C06', 'C08', 'C09', 'C11', 'C14'], 'kind_free_text': 'feature-model enumeration with deviation bound and failure minimisation'},
            {'name': 'SCHED', 'path': '/verif/vf/sched.py', 'serves_properties': ['C20'], 'kind_free_text': 'cooperative scheduler over sys.monitoring points + CHESS-style preemption-bounded explorer'},
            {'name': 'REFLECT', 'path': '/verif/vf/reflect.py', 'serves_properties': ['C09', 'C10', 'C13', 'C14', 'C17', 'C18'], 'kind_free_text': 'reflective object-graph walker, fingerprints, identity sets'},
            {'name': 'HIST', 'path': '/verif/vf/histories.py', 'serves_properties': ['C09', 'C20'], 'kind_free_text': 'planner / renderer corpora, exhaustive two-step histories, references from forked clean processes'},
        ],
        'checks': checks,
        'not_applicable': na,
        'notes': 'All checks are bounded-exhaustive explorations written in Python against the working tree of /repo (PYTHONPATH=/repo). See DESIGN.md.',
    }
    with open(os.path.join(ROOT, 'MANIFEST.json'), 'w') as fh:
        json.dump(man, fh, indent=1)
    print('checks', len(checks), 'not_applicable', len(na))


if __name__ == '__main__':
    main()

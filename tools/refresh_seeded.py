#!/venv/bin/python
"""Maintenance tool (never run by a check): bring every seeded/<id>/patch.diff up to date with /repo HEAD.

For each seeded change: scratch worktree of HEAD; `git apply --check`; if that fails the patch is merged with
`patch --fuzz=3`, the result is saved as the new patch.diff (the original is kept as patch.orig.diff) and meta.json
gets `rebased_onto`.  The demonstration is run on the pristine and on the patched worktree and the outcome recorded
(`on_head`): a later fix: commit can make a seeded change harmless.  No test suite, no checks here.
"""
import json
import os
import shutil
import subprocess
import sys

ROOT = os.path.dirname(os.path.dirname(os.path.abspath(__file__)))
PY = '/venv/bin/python'


def sh(cmd, cwd=None, env=None, timeout=900):
    e = dict(os.environ)
    e.update(env or {})
    p = subprocess.run(cmd, shell=isinstance(cmd, str), cwd=cwd, env=e, capture_output=True, text=True, timeout=timeout)
    return p.returncode, p.stdout + p.stderr


def main():
    head = sh(['git', '-C', '/repo', 'rev-parse', '--short', 'HEAD'])[1].strip()
    names = sorted(os.listdir(os.path.join(ROOT, 'seeded')))
    if len(sys.argv) > 1:
        names = sys.argv[1:]
    wt = '/tmp/wt/refresh'
    sh(['git', '-C', '/repo', 'worktree', 'remove', '--force', wt])
    rc, o = sh(['git', '-C', '/repo', 'worktree', 'add', '--detach', wt, 'HEAD'])
    assert rc == 0, o
    try:
        for name in names:
            d = os.path.join(ROOT, 'seeded', name)
            patch, demo, metaf = (os.path.join(d, x) for x in ('patch.diff', 'demo.py', 'meta.json'))
            meta = json.load(open(metaf))
            sh(['git', '-C', wt, 'checkout', '--', '.'])
            sh(['git', '-C', wt, 'clean', '-fdq'])
            env = {'PYTHONPATH': wt}
            rc0, _ = sh([PY, demo], cwd=wt, env=env)
            rc, _ = sh(['git', '-C', wt, 'apply', '--check', patch])
            how = 'git apply'
            if rc == 0:
                sh(['git', '-C', wt, 'apply', patch])
            else:
                rc, o = sh(f'patch -p1 --fuzz=3 --no-backup-if-mismatch < {patch}', cwd=wt)
                how = 'patch --fuzz=3'
                if rc == 0:
                    rcd, newdiff = sh(['git', '-C', wt, 'diff'])
                    if not os.path.exists(os.path.join(d, 'patch.orig.diff')):
                        shutil.copy(patch, os.path.join(d, 'patch.orig.diff'))
                    open(patch, 'w').write(newdiff)
                    meta['rebased_onto'] = head
                    for f in os.listdir(wt):
                        if f.endswith(('.orig', '.rej')):
                            os.remove(os.path.join(wt, f))
            if rc != 0:
                meta['on_head'] = {'head': head, 'applies': False, 'note': 'the code the change edits was rewritten by a later fix: commit'}
                print(name, 'DOES NOT APPLY')
            else:
                rc1, _ = sh([PY, demo], cwd=wt, env=env)
                meta['on_head'] = {'head': head, 'applies': True, 'applied_with': how, 'demo_pristine_rc': rc0, 'demo_patched_rc': rc1,
                                   'still_breaks_the_property': rc0 == 0 and rc1 != 0}
                print(name, how, 'pristine', rc0, 'patched', rc1)
            json.dump(meta, open(metaf, 'w'), indent=1)
    finally:
        sh(['git', '-C', '/repo', 'worktree', 'remove', '--force', wt])
        shutil.rmtree(wt, ignore_errors=True)


if __name__ == '__main__':
    main()

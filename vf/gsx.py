"""GSX - grammar-space explorer.

Everything is read from the *live* SLY objects of the working tree (productions, LALR action/goto
tables, lexer rules); nothing is transcribed.  Provides

  Model(dialect)        productions, tables, kernels, min-yields, lexemes
  Model.simulate(toks)  PDA run over the live tables (no semantic actions, no error recovery)
  Model.explore(k)      BFS over between-token configurations abstracted to the top-k stack suffix,
                        every terminal tried in every state; shortest witness prefix per abstract
                        state and per consulted action-table cell
  Model.complete(stack) shortest completion of a stack to an accepted sentence (kernel items +
                        min-yields, validated by simulation)
  Earley(model)         recogniser for the context free language of the live productions
"""
import collections
import heapq
import re
import sys

DIALECTS = ('sqlite', 'mysql', 'mindsdb')
END = '$end'


def load_classes(dialect):
    if dialect == 'sqlite':
        from mindsdb_sql.parser.lexer import SQLLexer as L
        from mindsdb_sql.parser.parser import SQLParser as P
    elif dialect == 'mysql':
        from mindsdb_sql.parser.dialects.mysql.lexer import MySQLLexer as L
        from mindsdb_sql.parser.dialects.mysql.parser import MySQLParser as P
    elif dialect == 'mindsdb':
        from mindsdb_sql.parser.dialects.mindsdb.lexer import MindsDBLexer as L
        from mindsdb_sql.parser.dialects.mindsdb.parser import MindsDBParser as P
    else:
        raise ValueError(dialect)
    return L, P


SPECIAL_LEXEMES = {
    'ID': 'abc', 'INTEGER': '1', 'FLOAT': '1.5', 'QUOTE_STRING': "'s'", 'DQUOTE_STRING': '"d"',
    'VARIABLE': '@v', 'SYSTEM_VARIABLE': '@@sv', 'PARAMETER': '?', 'NEQUALS': '!=',
}


def regex_to_lexeme(rx):
    """spelling for a keyword/punctuation token regex such as r'\\bGROUP BY\\b', r'\\bNOT[\\s]+IN\\b', r'\\('"""
    s = rx
    s = s.replace('\\b', '')
    s = s.replace('[_|\\s]', ' ').replace('[\\s]+', ' ').replace('\\s+', ' ').replace('\\s', ' ')
    m = re.fullmatch(r'\((.*?)\|.*\)', s)
    if m:
        s = m.group(1)
    s = re.sub(r'\\(.)', r'\1', s)
    return s


class ModelDivergence(Exception):
    pass


class Model:
    def __init__(self, dialect):
        self.dialect = dialect
        L, P = load_classes(dialect)
        self.L, self.P = L, P
        g, lt = P._grammar, P._lrtable
        self.prods = g.Productions
        self.action = lt.lr_action
        self.goto = lt.lr_goto
        self.defaulted = lt.defaulted_states
        self.start = g.Start
        self.nonterminals = set(g.Nonterminals)
        pref = ['ID', 'INTEGER', 'QUOTE_STRING', 'SELECT', 'FROM', 'WHERE', 'COMMA', 'LPAREN', 'RPAREN', 'EQUALS']
        ts = sorted(t for t in g.Terminals if t != 'error')
        self.terminals = [t for t in pref if t in ts] + [t for t in ts if t not in pref]
        self.prods_of = collections.defaultdict(list)
        for p in self.prods[1:]:
            self.prods_of[p.name].append(p)
        self._minyield()
        self._kernels()
        self._lexemes()
        self._cc = {}

    # ------------------------------------------------------------------ grammar facts
    YIELD_PREFS = (('ID',), ('INTEGER', 'ID'), ('QUOTE_STRING', 'ID'), ())

    def _minyield(self):
        """min-yield tables under several tie-breaking preferences (a preferred terminal costs
        exactly 1, the others 1 + epsilon); completions try them in order"""
        self.ytables = []
        for prefs in self.YIELD_PREFS:
            INF = float('inf')
            cost = {t: 1.0 + (0.0 if t in prefs else 0.001 * (1 + (sorted(self.terminals).index(t) % 7) * 0.01)) for t in self.terminals}
            cost['error'] = INF
            best = {}
            for nt in self.nonterminals:
                cost[nt] = INF
            changed = True
            while changed:
                changed = False
                for p in self.prods[1:]:
                    c = 0
                    for s in p.prod:
                        c += cost.get(s, INF)
                    if c < cost[p.name] - 1e-12:
                        cost[p.name] = c
                        best[p.name] = p
                        changed = True
            self.ytables.append((cost, best, {}))
        self.ycost = {k: (round(v) if v != float('inf') else v) for k, v in self.ytables[0][0].items()}

    def min_yield(self, sym, table=0):
        if sym not in self.nonterminals:
            return (sym,)
        cost, best, cache = self.ytables[table]
        r = cache.get(sym)
        if r is None:
            p = best[sym]
            out = []
            for s in p.prod:
                out.extend(self.min_yield(s, table))
            r = cache[sym] = tuple(out)
        return r

    def min_yield_seq(self, syms, table=0):
        out = []
        for s in syms:
            out.extend(self.min_yield(s, table))
        return tuple(out)

    def _kernels(self):
        """kernel items of every SLY state, by forward propagation over SLY's own numbering"""
        kern = collections.defaultdict(set)
        kern[0].add((0, 0))
        work = [0]
        seen_closure = {}
        while work:
            st = work.pop()
            items = self._closure(kern[st])
            by_sym = collections.defaultdict(set)
            for (pi, dot) in items:
                p = self.prods[pi]
                if dot < len(p.prod):
                    by_sym[p.prod[dot]].add((pi, dot + 1))
            for sym, nxt in by_sym.items():
                if sym in self.nonterminals:
                    tgt = self.goto.get(st, {}).get(sym)
                else:
                    a = self.action.get(st, {}).get(sym)
                    tgt = a if (a is not None and a > 0) else None
                if tgt is None:
                    continue  # shift removed by precedence resolution
                if not nxt <= kern[tgt]:
                    kern[tgt] |= nxt
                    work.append(tgt)
        self.kernels = {s: frozenset(k) for s, k in kern.items()}

    def _closure(self, items):
        out = set(items)
        work = list(items)
        while work:
            pi, dot = work.pop()
            p = self.prods[pi]
            if dot < len(p.prod):
                s = p.prod[dot]
                if s in self.nonterminals:
                    for q in self.prods_of[s]:
                        it = (q.number, 0)
                        if it not in out:
                            out.add(it)
                            work.append(it)
        return out

    # ------------------------------------------------------------------ lexemes
    def _lexemes(self):
        rules = dict((name, rx) for name, rx in self.L._rules if isinstance(rx, str))
        lex = {}
        unverified = {}
        for t in self.terminals:
            if t in SPECIAL_LEXEMES:
                sp = SPECIAL_LEXEMES[t]
            elif t in rules:
                sp = regex_to_lexeme(rules[t])
            else:
                sp = None
            ok = False
            if sp is not None:
                try:
                    toks = [x.type for x in self.L().tokenize(sp)]
                    ok = toks == [t]
                except Exception:
                    ok = False
            if ok:
                lex[t] = sp
            else:
                unverified[t] = sp
        self.lexeme = lex
        self.unverified_lexemes = unverified

    def text_of(self, types, numbered=False):
        """SQL text for a terminal sequence with default spellings; with numbered=True every ID /
        INTEGER / string gets a distinct spelling in textual order"""
        out = []
        n = 0
        for t in types:
            sp = self.lexeme.get(t)
            if sp is None:
                sp = t
            if numbered:
                if t == 'ID':
                    n += 1
                    sp = f'c{n}'
                elif t == 'INTEGER':
                    n += 1
                    sp = str(n)
                elif t == 'QUOTE_STRING':
                    n += 1
                    sp = f"'s{n}'"
                elif t == 'DQUOTE_STRING':
                    n += 1
                    sp = f'"d{n}"'
                elif t == 'FLOAT':
                    n += 1
                    sp = f'{n}.5'
                elif t == 'VARIABLE':
                    n += 1
                    sp = f'@v{"abcdefghijklmnopqrstuvwxyz"[n % 26]}'
            out.append(sp)
        return ' '.join(out)

    def lex(self, text):
        """token list of the live lexer (fresh instance) - the *actual* token stream of a text"""
        return list(self.L().tokenize(text))

    def lex_types(self, text):
        return [t.type for t in self.L().tokenize(text)]

    # ------------------------------------------------------------------ PDA
    def step(self, stack, term, cells=None):
        """consume one terminal (or END) from `stack` (tuple of states).
        returns new stack tuple, 'accept', or None (error cell)"""
        action, goto, prods, defaulted = self.action, self.goto, self.prods, self.defaulted
        stack = list(stack)
        n = 0
        while True:
            st = stack[-1]
            if st in defaulted:
                t = defaulted[st]
            else:
                t = action[st].get(term)
                if cells is not None:
                    cells.add((st, term))
            if t is None:
                return None
            if t > 0:
                stack.append(t)
                return tuple(stack)
            if t < 0:
                p = prods[-t]
                if p.len:
                    del stack[-p.len:]
                stack.append(goto[stack[-1]][p.name])
                n += 1
                if n > 100000:
                    raise ModelDivergence('reduce loop')
                continue
            return 'accept'

    def simulate(self, types, cells=None, stack=(0,)):
        """returns (accepted, error_index) ; error_index == len(types) means 'unexpected end'"""
        for i, t in enumerate(types):
            stack = self.step(stack, t, cells)
            if stack is None:
                return False, i
            if stack == 'accept':
                return False, i
        r = self.step(stack, END, cells)
        if r == 'accept':
            return True, None
        return False, len(types)

    def stack_after(self, types, stack=(0,)):
        for t in types:
            stack = self.step(stack, t)
            if stack is None or stack == 'accept':
                return None
        return stack

    def expected(self, stack):
        """terminals with an action in the row of the state reached after default reductions"""
        st = stack[-1]
        return set(self.action[st].keys())

    # ------------------------------------------------------------------ completion
    def complete(self, stack, limit=60):
        """shortest terminal sequence w such that the PDA accepts from `stack` on w; None if not found.
        Candidates come from kernel items + min-yields and are validated by simulation."""
        stack = tuple(stack)
        if stack in self._cc:
            return self._cc[stack]
        result = None
        for table in range(len(self.ytables)):
            result = self._complete(stack, table, limit)
            if result is not None:
                break
        self._cc[stack] = result
        return result

    def _complete(self, stack, table, limit):
        heap = [(0, 0, stack, ())]
        seen = {}
        cnt = 0
        result = None
        tries = 0
        while heap:
            cost, _, stk, emitted = heapq.heappop(heap)
            if cost > limit:
                break
            top = stk[-1]
            for (pi, dot) in sorted(self.kernels.get(top, ())):
                p = self.prods[pi]
                rest = p.prod[dot:]
                c = sum(self.ycost.get(s, float('inf')) for s in rest)
                if c == float('inf'):
                    continue
                y = self.min_yield_seq(rest, table)
                if pi == 0:
                    cand = emitted + y
                    tries += 1
                    ok, _ = self.simulate(cand, stack=stack)
                    if ok:
                        if result is None or len(cand) < len(result):
                            result = cand
                    continue
                if dot > len(stk) - 1:
                    continue
                base = stk[:len(stk) - dot]
                g = self.goto.get(base[-1], {}).get(p.name)
                if g is None:
                    continue
                nstk = base + (g,)
                ncost = cost + len(y)
                if seen.get(nstk, 0) >= 6:      # keep several alternative emitted strings per stack
                    continue
                seen[nstk] = seen.get(nstk, 0) + 1
                cnt += 1
                heapq.heappush(heap, (ncost, cnt, nstk, emitted + y))
            if result is not None and heap and heap[0][0] >= len(result):
                break
            if tries > 200:
                break
        return result

    # ------------------------------------------------------------------ exploration
    def explore(self, k=1, max_states=None):
        """BFS over between-token configurations; abstract state = top-k stack suffix.
        Returns dict with
          states: {abs: (prefix_types, full_stack)}
          cells:  {(lr_state, terminal): (abs_state, terminal)}   first witness of every consulted cell
          edges:  number of (abs_state, terminal) transitions tried
          valid_edges
        """
        start = (0,)
        absof = lambda stk: stk[-k:]
        states = {absof(start): ((), start)}
        queue = collections.deque([absof(start)])
        cells = {}
        edges = valid = 0
        terms = self.terminals + [END]
        while queue:
            a = queue.popleft()
            prefix, stk = states[a]
            for t in terms:
                edges += 1
                cs = set()
                r = self.step(stk, t, cs)
                for c in cs:
                    if c not in cells:
                        cells[c] = (a, t)
                if r is None or r == 'accept':
                    if r == 'accept':
                        valid += 1
                    continue
                valid += 1
                b = absof(r)
                if b not in states:
                    states[b] = (prefix + (t,), r)
                    queue.append(b)
                    if max_states and len(states) >= max_states:
                        queue.clear()
                        break
        return {'states': states, 'cells': cells, 'edges': edges, 'valid_edges': valid, 'k': k}


# ---------------------------------------------------------------------- Earley recogniser
class Earley:
    """Plain Earley recogniser over the live productions (no precedence, no tables)."""

    def __init__(self, model):
        self.m = model
        self.prods = [(p.name, tuple(p.prod)) for p in model.prods]
        self.by_lhs = collections.defaultdict(list)
        for i, (lhs, rhs) in enumerate(self.prods):
            if i:
                self.by_lhs[lhs].append(i)
        self.nts = model.nonterminals
        # nullable nonterminals
        nullable = set()
        ch = True
        while ch:
            ch = False
            for lhs, rhs in self.prods[1:]:
                if lhs not in nullable and all(s in nullable for s in rhs):
                    nullable.add(lhs)
                    ch = True
        self.nullable = nullable
        self._pred = {}

    def _predict_closure(self, nt):
        """all productions predicted (transitively, through leading nullable symbols) from nt, as items (pi, dot)"""
        r = self._pred.get(nt)
        if r is not None:
            return r
        out = set()
        seen_nt = set()
        work = [nt]
        while work:
            a = work.pop()
            if a in seen_nt:
                continue
            seen_nt.add(a)
            for pi in self.by_lhs[a]:
                rhs = self.prods[pi][1]
                d = 0
                while True:
                    out.add((pi, d))
                    if d < len(rhs) and rhs[d] in self.nts:
                        work.append(rhs[d])
                        if rhs[d] in self.nullable:
                            d += 1
                            continue
                    break
        self._pred[nt] = frozenset(out)
        return self._pred[nt]

    def accepts(self, types):
        prods, nts, nullable = self.prods, self.nts, self.nullable
        n = len(types)
        chart = [set() for _ in range(n + 1)]
        order = [[] for _ in range(n + 1)]
        wait = [collections.defaultdict(list) for _ in range(n + 1)]

        def add(i, it):
            if it not in chart[i]:
                chart[i].add(it)
                order[i].append(it)
                rhs = prods[it[0]][1]
                if it[1] < len(rhs):
                    wait[i][rhs[it[1]]].append(it)

        add(0, (0, 0, 0))
        for i in range(n + 1):
            j = 0
            lst = order[i]
            tok = types[i] if i < n else None
            predicted = set()
            while j < len(lst):
                pi, dot, org = lst[j]
                j += 1
                rhs = prods[pi][1]
                if dot < len(rhs):
                    s = rhs[dot]
                    if s in nts:
                        if s not in predicted:
                            predicted.add(s)
                            for (qi, d) in self._predict_closure(s):
                                add(i, (qi, d, i))
                        if s in nullable:
                            add(i, (pi, dot + 1, org))
                    elif s == tok:
                        add(i + 1, (pi, dot + 1, org))
                elif org != i:   # completions of empty spans are covered by the nullable advance
                    lhs = prods[pi][0]
                    for (qi, qd, qo) in wait[org][lhs]:
                        add(i, (qi, qd + 1, qo))
            if i < n and not order[i + 1]:
                return False
        return (0, 1, 0) in chart[n]


# ---------------------------------------------------------------------- sentence families
class Families:
    """Finite sentence families derived from the explored automaton (all enumerated completely)."""

    def __init__(self, model, k=1):
        self.m = model
        self.k = k
        self.ex = model.explore(k)
        self.dead = []          # abstract states whose witness cannot be completed
        self.comp = {}
        for a, (pre, stk) in self.ex['states'].items():
            c = model.complete(stk)
            if c is None:
                self.dead.append(a)
            self.comp[a] = c

    def s0_edges(self):
        """prefix(s) . a . completion  for every state s and every terminal a valid in s"""
        m = self.m
        out = []
        for a, (pre, stk) in self.ex['states'].items():
            for t in m.terminals:
                r = m.step(stk, t)
                if r is None or r == 'accept':
                    continue
                c = m.complete(r)
                if c is None:
                    continue
                out.append(pre + (t,) + c)
        return out

    def s0_pairs(self, table=0):
        """minimal CFG sentence through (production P, position i, child production C); `table` selects the tie-breaking
        preference of the min-yields (0: identifiers, 1: integers, 2: strings as expression leaves)"""
        m = self.m
        ctx = self._contexts()
        out = []
        self.pair_targets = 0
        for P in m.prods[1:]:
            if P.name not in ctx:
                continue
            cpre, csuf = ctx[P.name]
            nts = [i for i, s in enumerate(P.prod) if s in m.nonterminals]
            if not nts:
                out.append(cpre + m.min_yield_seq(P.prod, table) + csuf)
                self.pair_targets += 1
            for i in nts:
                for C in m.prods_of[P.prod[i]]:
                    if any(m.ycost.get(s, float('inf')) == float('inf') for s in C.prod):
                        continue
                    self.pair_targets += 1
                    out.append(cpre + m.min_yield_seq(P.prod[:i], table) + m.min_yield_seq(C.prod, table)
                               + m.min_yield_seq(P.prod[i + 1:], table) + csuf)
        return out

    def s0_triples(self, exclude=(), table=0):
        """minimal CFG sentence through every chain (production P, position i, child production C, position j,
        grandchild production D): two derivation steps away from the minimal sentences.  Distinct terminal strings
        not in `exclude`, sorted."""
        m = self.m
        ctx = self._contexts()
        INF = float('inf')
        ok = lambda P: all(m.ycost.get(s, INF) != INF for s in P.prod)
        out = set()
        self.triple_targets = 0
        for P in m.prods[1:]:
            if not ok(P) or P.name not in ctx:
                continue
            cpre, csuf = ctx[P.name]
            for i, s in enumerate(P.prod):
                if s not in m.nonterminals:
                    continue
                a = cpre + m.min_yield_seq(P.prod[:i], table)
                b = m.min_yield_seq(P.prod[i + 1:], table) + csuf
                for C in m.prods_of[s]:
                    if not ok(C):
                        continue
                    for j, s2 in enumerate(C.prod):
                        if s2 not in m.nonterminals:
                            continue
                        a2 = a + m.min_yield_seq(C.prod[:j], table)
                        b2 = m.min_yield_seq(C.prod[j + 1:], table) + b
                        for D in m.prods_of[s2]:
                            if ok(D):
                                self.triple_targets += 1
                                out.add(a2 + m.min_yield_seq(D.prod, table) + b2)
        ex = set(exclude)
        return sorted(x for x in out if x not in ex)

    def s0_sibling_pairs(self, exclude=(), table=0):
        """minimal CFG sentence for every production P, every two nonterminal positions i < j of P and every pair of expansions
        (C at i, D at j), where an expansion of N is a production of N or, through a unit production N -> M, a production of M
        (so that both elements of a two-element list  L -> L sep X,  L -> X  range over all alternatives of X).
        Distinct terminal strings not in `exclude`, sorted."""
        m = self.m
        ctx = self._contexts()
        INF = float('inf')
        ok = lambda P: all(m.ycost.get(s, INF) != INF for s in P.prod)

        def expansions(n):
            out = []
            for C in m.prods_of[n]:
                if not ok(C):
                    continue
                out.append(m.min_yield_seq(C.prod, table))
                if len(C.prod) == 1 and C.prod[0] in m.nonterminals and len(m.prods_of[C.prod[0]]) <= 30:
                    for D in m.prods_of[C.prod[0]]:
                        if ok(D):
                            out.append(m.min_yield_seq(D.prod, table))
            out = list(dict.fromkeys(out))
            if len(m.prods_of[n]) > 30:
                # token-like nonterminals (every keyword as a name, every token of a raw query): the two shortest stand for all
                out = sorted(out, key=len)[:2]
            return out

        memo = {}
        out = set()
        self.sibling_targets = 0
        for P in m.prods[1:]:
            if not ok(P) or P.name not in ctx:
                continue
            cpre, csuf = ctx[P.name]
            nts = [i for i, s in enumerate(P.prod) if s in m.nonterminals]
            for x in range(len(nts)):
                for y in range(x + 1, len(nts)):
                    i, j = nts[x], nts[y]
                    for n in (P.prod[i], P.prod[j]):
                        if n not in memo:
                            memo[n] = expansions(n)
                    a = cpre + m.min_yield_seq(P.prod[:i], table)
                    mid = m.min_yield_seq(P.prod[i + 1:j], table)
                    b = m.min_yield_seq(P.prod[j + 1:], table) + csuf
                    for e1 in memo[P.prod[i]]:
                        for e2 in memo[P.prod[j]]:
                            self.sibling_targets += 1
                            out.add(a + e1 + mid + e2 + b)
        ex = set(exclude)
        return sorted(x for x in out if x not in ex)

    def _contexts(self):
        """cheapest (prefix, suffix) context start =>* prefix N suffix for every nonterminal N"""
        m = self.m
        INF = float('inf')
        best = {m.start: (0, (), ())}
        heap = [(0, m.start)]
        done = set()
        while heap:
            c, n = heapq.heappop(heap)
            if n in done:
                continue
            done.add(n)
            _, pre, suf = best[n]
            for P in m.prods_of[n]:
                if any(m.ycost.get(s, INF) == INF for s in P.prod):
                    continue
                for i, s in enumerate(P.prod):
                    if s in m.nonterminals:
                        npre = pre + m.min_yield_seq(P.prod[:i])
                        nsuf = m.min_yield_seq(P.prod[i + 1:]) + suf
                        nc = len(npre) + len(nsuf)
                        if s not in best or nc < best[s][0]:
                            best[s] = (nc, npre, nsuf)
                            heapq.heappush(heap, (nc, s))
        return {n: (v[1], v[2]) for n, v in best.items()}

    def s1(self, terminals=None):
        """one token deviation at every abstract state: insert a / replace next by a / delete next"""
        m = self.m
        terms = terminals if terminals is not None else m.terminals
        out = []
        for a, (pre, stk) in self.ex['states'].items():
            c = self.comp[a]
            if c is None:
                c = ()
            for t in terms:
                out.append(('ins', pre + (t,) + c))
                if c:
                    out.append(('rep', pre + (t,) + c[1:]))
            if c:
                out.append(('del', pre + c[1:]))
            out.append(('trunc', pre))
        return out

    def cell_witnesses(self):
        """for every consulted cell (lr_state, terminal): the sentence prefix(abs).t.[completion] that consults it"""
        out = []
        for (st, term), (a, t) in self.ex['cells'].items():
            pre, stk = self.ex['states'][a]
            out.append(((st, term), pre + ((t,) if t != END else ())))
        return out

    def kw_family(self, keys):
        """texts for every production that carries a `kw_parameter_list` (USING/SET option lists): the list is
        instantiated with every key of `keys` x every value form, and with every ordered pair of keys"""
        m = self.m
        if 'kw_parameter_list' not in m.nonterminals:
            return []
        ctx = self._contexts()
        values = ['abc', "'s'", '1', '1.5', 'NULL', 'TRUE', '{"a": 1}', '[1, 2]', 'f(a = 1)', 'a.b', "''", '"d"']
        lists = []
        for k in keys:
            for v in values:
                lists.append(f'{k} = {v}')
        for k1 in keys:
            for k2 in keys:
                for v1 in ('abc', "'s'"):
                    for v2 in ('abc', "'s'"):
                        lists.append(f'{k1} = {v1}, {k2} = {v2}')
        out = []
        for P in m.prods[1:]:
            if 'kw_parameter_list' not in P.prod or P.name not in ctx:
                continue
            cpre, csuf = ctx[P.name]
            i = P.prod.index('kw_parameter_list')
            a = m.text_of(cpre + m.min_yield_seq(P.prod[:i]))
            b = m.text_of(m.min_yield_seq(P.prod[i + 1:]) + csuf)
            for l in lists:
                out.append(f'{a} {l} {b}'.strip())
        return out

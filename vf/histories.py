"""Call histories over a rich planner corpus (used by C09, C10, C20).

One catalog (two SQL integrations, files/views, a project with two plain models and a time-series model) and a
corpus of planner inputs drawn from every query model of /verif (C08 feature model, predictor-join model,
time-series joins, DML/DDL list, C10 position templates incl. two versions of one model in one statement).

Two kinds of two-step histories, explored exhaustively over ordered pairs (first, second) of the corpus:
  * process history : plan_query(first) then plan_query(second), fresh planner objects, same process
  * planner reuse   : one QueryPlanner object, from_query(first) then from_query(second)
Oracle: the observation of `second` equals its reference (planned first in a fresh state, i.e. before anything else);
the C09 check additionally applies its well-formedness scan to the second plan.
"""
import copy
import itertools


CATALOG_KIND = 'rich'      # 'no_default': the same catalog without a default namespace (unqualified names cannot be resolved)


def rich_catalog():
    c = _rich_catalog()
    if CATALOG_KIND == 'no_default':
        del c['default_namespace']
    return c


def _rich_catalog():
    return dict(integrations=['int1', 'int2', 'files', 'views', {'name': 'proj', 'type': 'project'}], default_namespace='mindsdb',
                predictor_metadata=[dict(name='pred', integration_name='mindsdb'), dict(name='pred2', integration_name='mindsdb'),
                                    dict(name='pred', integration_name='proj'),
                                    dict(name='tp', integration_name='mindsdb', timeseries=True, order_by_column='ts', group_by_columns=['g'], window=2)])


EXTRA = [
    # two nested selects in WHERE, joins after them
    'SELECT * FROM int1.t1 JOIN int2.t2 ON t1.id = t2.id WHERE t1.a IN (SELECT id FROM int2.t2) AND t1.x IN (SELECT c FROM int1.t3)',
    'SELECT * FROM int1.t1 JOIN int2.t2 ON t1.id = t2.id WHERE t1.a = (SELECT max(b) FROM int2.t2) AND t2.b > (SELECT min(c) FROM int1.t3) LIMIT 2',
    'SELECT * FROM int1.t1 JOIN mindsdb.pred AS p1 JOIN int2.t2 ON p1.x = t2.b',
    'SELECT * FROM int1.t1 AS a JOIN mindsdb.pred AS p1 JOIN int2.t2 AS b ON p1.x = b.x',
    'SELECT * FROM int1.t1 JOIN int2.t2 ON t1.id = t2.id JOIN int1.t3 ON t2.id = t3.c JOIN mindsdb.pred',
    'SELECT * FROM mindsdb.pred.1 WHERE a = 1 UNION ALL SELECT * FROM mindsdb.pred.2 WHERE a = 1',
    'SELECT * FROM mindsdb.pred WHERE a = 1 UNION ALL SELECT * FROM mindsdb.pred.7 WHERE a = 1',
    'SELECT * FROM mindsdb.pred.7 WHERE a = 1',
    'SELECT * FROM proj.pred WHERE a = 1',
    'SELECT * FROM int1.t1 JOIN proj.pred',
    'SELECT * FROM int1.t1 JOIN mindsdb.pred.1',
    'SELECT * FROM int1.t1 JOIN mindsdb.pred.2 WHERE t1.a = 1',
    'SELECT * FROM int1.tt AS t JOIN mindsdb.tp.1 WHERE t.ts > 2',
    'SELECT * FROM int1.tt AS t JOIN mindsdb.tp.2 WHERE t.ts > LATEST',
    "SELECT * FROM int1.tt AS t JOIN mindsdb.tp WHERE t.ts > 2 AND t.g = 'a' LIMIT 1",
    'SELECT * FROM int1.t1 JOIN mindsdb.pred USING partition_size = 2',
    'SELECT * FROM int1.t1 JOIN mindsdb.pred JOIN int2.t2 USING partition_size = 2',
    'SELECT * FROM INT1.t1 JOIN Int2.t2 ON t1.id = t2.id',
    'SELECT * FROM files.f', 'SELECT * FROM views.v JOIN int1.t1 ON v.id = t1.id',
    # a WITH statement that is pushed down whole, then statements that read a real table of the same name
    'WITH recent AS (SELECT * FROM int1.t1 WHERE a = 1) SELECT * FROM recent',
    'SELECT id FROM recent UNION SELECT id FROM recent WHERE id > 5',
    'SELECT * FROM recent JOIN int1.t1 ON recent.id = t1.id',
    'SELECT * FROM int1.recent JOIN int2.t2 ON recent.id = t2.id',
    # statements other than SELECT that read a table named like a CTE of an earlier statement
    'INSERT INTO int1.t3 (id) SELECT orders.id FROM orders JOIN int2.t2 ON orders.id = t2.id',
    'CREATE TABLE int1.n (SELECT * FROM orders JOIN int2.t2 ON orders.id = t2.id)',
    'DELETE FROM int1.t1 WHERE id IN (SELECT id FROM orders)',
    'UPDATE int1.t1 SET a = 1 FROM (SELECT * FROM orders JOIN int2.t2 ON orders.id = t2.id) AS s WHERE t1.id = s.id',
    # a CTE and, in another statement, a real table of the same name (default namespace / another integration)
    'WITH orders AS (SELECT * FROM int1.t1 WHERE a = 1) SELECT * FROM orders JOIN int2.t2 ON orders.id = t2.id',
    'SELECT * FROM orders JOIN int2.t2 ON orders.id = t2.id',
    'WITH t2 AS (SELECT * FROM int1.t1) SELECT * FROM t2 JOIN int1.t3 ON t2.id = t3.id JOIN mindsdb.pred',
    'SELECT * FROM t2 JOIN int2.t2 AS u ON t2.id = u.id',
    'SELECT * FROM mindsdb.t2 JOIN int1.t1 ON t2.id = t1.id',
    # DML / DDL whose source select cannot be planned (a model read without WHERE), and unqualified tables afterwards
    'INSERT INTO int1.t3 (id) SELECT * FROM mindsdb.pred',
    'CREATE TABLE int1.n (SELECT * FROM mindsdb.pred)',
    'UPDATE int1.t1 SET a = 1 FROM (SELECT * FROM mindsdb.pred) AS s WHERE t1.id = s.id',
    'INSERT INTO int2.t2 (id) SELECT id FROM nowhere.x JOIN int1.t1',
    'SELECT * FROM tbl2',
    'SELECT * FROM tbl2 JOIN int2.t2 ON tbl2.id = t2.id',
    'SELECT * FROM tbl2 WHERE id IN (SELECT id FROM int1.t1)',
]


def corpus(tier='quick'):
    """list of SQL texts (deduplicated, deterministic order)"""
    from vf import predq, qgen
    from vf.props import c08, c09, c10
    out = []
    seen = set()

    def add(sql):
        if sql not in seen:
            seen.add(sql)
            out.append(sql)

    for sql in EXTRA:
        add(sql)
    d = 1
    for a in qgen.assignments(c08.FEATURES, d, full_products=[('shape', 'join')] if tier == 'thorough' else []):
        if a['catalog']:
            continue
        q = c08.build(a)
        if q is not None:
            add(q['sql'])
    for a in qgen.assignments(predq.FEATURES, d, full_products=[('shape', 'using')] if tier == 'thorough' else []):
        if a['catalog']:
            continue
        q = predq.build(a)
        if q is not None:
            add(q['sql'])
    for (cl, cond), (pl, part) in itertools.product(predq.TS_CONDS, predq.TS_PART):
        conds = [c.format(v=2) for c in (cond, part) if c]
        add('SELECT * FROM int1.tt AS t JOIN mindsdb.tp' + (' WHERE ' + ' AND '.join(conds) if conds else ''))
    for sql in c09.DML:
        add(sql)
    for pl, tpl, tabs in c10.POSITIONS:
        add(tpl.replace('{A}', 'int2'))
    for pl, tpl, tabs, models in c10.MODEL_POSITIONS:
        add(tpl.replace('{M}', 'mindsdb'))
    return out


def observe_plan(sql, planner=None):
    """-> (observation, plan or None) of planning `sql` (fresh planner unless one is given)"""
    from mindsdb_sql import parse_sql
    from mindsdb_sql.planner import plan_query
    try:
        tree = parse_sql(sql)
    except Exception as e:
        return ('noparse', type(e).__name__), None
    try:
        if planner is None:
            plan = plan_query(tree, **rich_catalog())
        else:
            plan = planner.from_query(tree)
        return ('plan', repr(plan.steps)), plan
    except Exception as e:
        return ('exc', type(e).__name__, str(e)[:200]), None


def new_planner():
    from mindsdb_sql.planner.query_planner import QueryPlanner
    return QueryPlanner(**rich_catalog())


# ----------------------------------------------------------------------------- references and confirmation
_TREES = {}


def tree_of(sql):
    """parsed once per process, deep-copied for every use (planning may rewrite the tree it is given)"""
    from mindsdb_sql import parse_sql
    if sql not in _TREES:
        try:
            _TREES[sql] = parse_sql(sql)
        except Exception as e:
            _TREES[sql] = e
    t = _TREES[sql]
    return t if isinstance(t, Exception) else copy.deepcopy(t)


_ADDR = None


def canon(text):
    """repr without object addresses (default reprs, and the opaque temporary names t_<id(node)> the planner invents)"""
    global _ADDR
    if _ADDR is None:
        import re
        _ADDR = re.compile(r' at 0x[0-9a-fA-F]+|(?<=\bt_)\d{6,}')
    return _ADDR.sub('', text)


def observe(sql, planner=None):
    from mindsdb_sql.planner import plan_query
    tree = tree_of(sql)
    if isinstance(tree, Exception):
        return ('noparse', type(tree).__name__), None
    try:
        plan = plan_query(tree, **rich_catalog()) if planner is None else planner.from_query(tree)
        return ('plan', canon(repr(plan.steps))), plan
    except Exception as e:
        return ('exc', type(e).__name__, str(e)[:200]), None


def _ref_one(sql):
    return observe(sql)[0]


def _lane(sqls):
    """runs in a lane process forked from the clean caller; the lane itself never plans: every entry is observed in a child of its own"""
    import json
    import os
    out = []
    for sql in sqls:
        r, w = os.pipe()
        pid = os.fork()
        if pid == 0:
            try:
                os.close(r)
                data = json.dumps(_ref_one(sql)).encode()
                with os.fdopen(w, 'wb') as fh:
                    fh.write(data)
            finally:
                os._exit(0)
        os.close(w)
        with os.fdopen(r, 'rb') as fh:
            data = fh.read()
        os.waitpid(pid, 0)
        out.append(tuple(json.loads(data.decode())) if data else ('reference-failed',))
    return out


def references(sqls):
    """observation of every corpus entry, each computed in a process forked (through a lane that does nothing else) from the still
    clean caller: nothing was parsed or planned before it"""
    import multiprocessing as mp
    # warm imports only (SLY builds the parser tables at import time); nothing is parsed or planned here
    import mindsdb_sql.planner  # noqa: F401
    from mindsdb_sql.parser.dialects.mindsdb.parser import MindsDBParser  # noqa: F401
    from mindsdb_sql.parser.dialects.mindsdb.lexer import MindsDBLexer  # noqa: F401
    ctx = mp.get_context('fork')
    lanes = [sqls[k::16] for k in range(16)]
    with ctx.Pool(16) as pool:
        res = pool.map(_lane, lanes, chunksize=1)
    out = [None] * len(sqls)
    for k, lane in enumerate(res):
        out[k::16] = lane
    return out


def select_quick(sqls, refs):
    """indices of a sub-corpus: the hand-kept histories seeds, every model / version statement and one statement per distinct
    sequence of step classes"""
    import re
    keep = []
    seen = set()
    for i, (sql, ref) in enumerate(zip(sqls, refs)):
        shape = tuple(re.findall(r'(\w+)\(step_num=', ref[1])) if ref[0] == 'plan' else ref[:2]
        if sql in EXTRA or shape not in seen or re.search(r'pred\.\d|tp\.\d', sql):
            keep.append(i)
        seen.add(shape)
    return keep


def run_history(kind, sqls):
    """observation of the last call of a history, in this process"""
    planner = new_planner() if kind == 'reuse' else None
    last = None
    for sql in sqls:
        last = observe(sql, planner)[0]
    return last


def confirm_in_fresh_process(kind, sqls, root, repo):
    """re-run a short history in a fresh interpreter; returns the observation of its last call"""
    import json
    import os
    import subprocess
    import sys
    env = dict(os.environ)
    env['PYTHONPATH'] = repo + ':' + root
    p = subprocess.run([sys.executable, '-m', 'vf.histories', kind], input=json.dumps(sqls), capture_output=True, text=True, env=env, cwd=root, timeout=300)
    if p.returncode != 0:
        return ('confirm-failed', p.stderr[-300:])
    return tuple(json.loads(p.stdout))


if __name__ == '__main__':
    import json
    import sys
    print(json.dumps(run_history(sys.argv[1], json.loads(sys.stdin.read()))))


# ----------------------------------------------------------------------------- renderer histories
RENDER_DIALECTS = ['mysql', 'postgresql', 'postgres', 'sqlite', 'mssql', 'oracle', 'Snowflake',
                   'class:mysql', 'class:postgresql', 'class:sqlite', 'class:mssql', 'class:oracle']
RENDER_SQL = [
    'select cast(price as float) as p from t', 'insert into t (a, b) values (1, 2), (3, 4)', 'select * from t where n = 1', 'select * from t where flag = true',
    'select * from t where x = 1.0', "select * from t where s = '1' and n = 0 and f = false", 'select * from t where a in (1, true, 1.0)',
    'select a from t order by a desc nulls last limit 1 offset 0', 'create table t (a serial, b int)', 'select cast(a as int), cast(b as varchar) from t',
    "update t set a = 1, b = true where c = 1.0", "select 'a%b', ':x' from t", 'select * from t1 left join t2 on t1.id = t2.id', 'select cast(a as foo) from t',
    'select date_add(a, interval 1 day) from t', 'select a, count(*) from t group by a having count(*) > 1',
    # DDL on one table name with different column lists (renderers that remember table definitions)
    'create table t (c int, d text)', 'create table t (a int)', 'drop table t', 'drop table if exists t', 'create table if not exists t (z float)',
    'create table s.t (a int, b int)', 'create table u (a int)',
]


def render_ops():
    return [(d, q) for d in RENDER_DIALECTS for q in RENDER_SQL]


def make_render(dkey):
    from mindsdb_sql.render.sqlalchemy_render import SqlalchemyRender
    if dkey.startswith('class:'):
        import importlib
        mod = importlib.import_module('sqlalchemy.dialects.' + dkey[6:])
        return SqlalchemyRender(mod.dialect)
    return SqlalchemyRender(dkey)


def observe_render(op, render=None):
    dkey, sql = op
    tree = tree_of(sql)
    if isinstance(tree, Exception):
        return ('noparse', type(tree).__name__)
    try:
        r = render if render is not None else make_render(dkey)
        return ('sql', canon(r.get_string(tree, with_failback=True)))
    except Exception as e:
        return ('exc', type(e).__name__, str(e)[:200])


def _rref_one(op):
    return observe_render(tuple(op))


def fork_map(fn, items):
    """fn(item) for every item, each evaluated in a process of its own forked (through a lane that does nothing else) from the caller"""
    import multiprocessing as mp
    global _ref_one
    saved = _ref_one
    _ref_one = fn
    try:
        ctx = mp.get_context('fork')
        lanes = [items[k::16] for k in range(16)]
        with ctx.Pool(16) as pool:
            res = pool.map(_lane, lanes, chunksize=1)
    finally:
        _ref_one = saved
    out = [None] * len(items)
    for k, lane in enumerate(res):
        out[k::16] = lane
    return out


def render_references(ops):
    import multiprocessing as mp
    import mindsdb_sql.render.sqlalchemy_render  # noqa: F401   (warm imports only)
    from mindsdb_sql.parser.dialects.mindsdb.parser import MindsDBParser  # noqa: F401
    global _ref_one
    saved = _ref_one
    _ref_one = _rref_one
    try:
        ctx = mp.get_context('fork')
        lanes = [ops[k::16] for k in range(16)]
        with ctx.Pool(16) as pool:
            res = pool.map(_lane, lanes, chunksize=1)
    finally:
        _ref_one = saved
    out = [None] * len(ops)
    for k, lane in enumerate(res):
        out[k::16] = lane
    return out

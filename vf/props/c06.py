"""C06 - SQL rendered through SQLAlchemy means the same as the parsed statement.

Feature-model enumeration of SELECT statements (all with <= d non-default features; join kind x
WHERE shape as a full product) and a list of DML/DDL statements over a fixed schema, x all small
database contents of SQLREF, x targets {sqlite, mysql, postgresql}.  The original text and the
rendering are executed by sqlite on identical databases and compared with the answer-set oracle.
"""
import collections
import sqlite3

from sqlalchemy.exc import SQLAlchemyError

from mindsdb_sql.render.sqlalchemy_render import SqlalchemyRender

from vf import parsing, qgen, sqlref
from vf.runner import Check, Result, exc_sig

TARGETS = ['sqlite', 'mysql', 'postgresql']

TARGET_OPTS = [
    # (label, select list, output names usable in ORDER BY, explicit aliases by position, aggregate?)
    ('plain', 't1.id, t1.a', ['id', 'a'], {}, False),
    ('alias', 't1.a AS k, t1.id', ['id', 'k'], {0: 'k'}, False),
    ('arith', 't1.a + 1 AS k, t1.id', ['id', 'k'], {0: 'k'}, False),
    ('arith_prec', 't1.a + t1.x * 2 AS k, (t1.a + t1.x) * 2 AS k2, t1.a - (t1.x - t1.id) AS k3, t1.id', ['id', 'k'], {0: 'k', 1: 'k2', 2: 'k3'}, False),
    ('case', 'CASE WHEN t1.a = 1 THEN 10 WHEN t1.a IS NULL THEN 30 ELSE 20 END AS k, t1.id', ['id', 'k'], {0: 'k'}, False),
    ('case_noelse', 'CASE WHEN t1.a = 1 THEN 10 END AS k, t1.id', ['id', 'k'], {0: 'k'}, False),
    ('cast', 'CAST(t1.a AS int) AS k, t1.id', ['id', 'k'], {0: 'k'}, False),
    ('coalesce', 'coalesce(t1.a, 0) AS k, t1.id', ['id', 'k'], {0: 'k'}, False),
    ('neg', '- t1.a AS k, t1.id', ['id', 'k'], {0: 'k'}, False),
    ('isnull', 't1.a IS NULL AS k, t1.a IS NOT NULL AS k2, t1.id', ['id', 'k'], {0: 'k', 1: 'k2'}, False),
    ('cmp', 't1.a > 1 AS k, NOT t1.a = 1 AS k2, t1.a BETWEEN 1 AND 2 AS k3, t1.a IN (1, 3) AS k4, t1.id', ['id', 'k'], {0: 'k', 1: 'k2', 2: 'k3', 3: 'k4'}, False),
    ('window_count', 'count(*) OVER (PARTITION BY t1.a) AS k, t1.id', ['id', 'k'], {0: 'k'}, False),
    ('window_sum', 'sum(t1.x) OVER (PARTITION BY t1.a ORDER BY t1.id) AS k, t1.id', ['id', 'k'], {0: 'k'}, False),
    ('window_desc', 'sum(t1.x) OVER (ORDER BY t1.id DESC) AS k, t1.id', ['id', 'k'], {0: 'k'}, False),
    ('scalar_subquery', '(SELECT max(t2.b) FROM t2) AS k, t1.id', ['id', 'k'], {0: 'k'}, False),
    ('star', '*', ['id', 'a'], {}, False),
    ('qstar', 't1.*', ['id', 'a'], {}, False),
    ('count', 'count(*) AS n', ['n'], {0: 'n'}, True),
    ('aggs', 'sum(t1.x) AS s, min(t1.a) AS m, count(t1.a) AS c, count(DISTINCT t1.a) AS d', ['s', 'm'], {0: 's', 1: 'm', 2: 'c', 3: 'd'}, True),
    ('const', "1 AS one, 'txt' AS t, NULL AS nn, t1.id", ['id', 'one'], {0: 'one', 1: 't', 2: 'nn'}, False),
    # string constants with characters that some target's literal syntax treats specially (the value must come back unchanged)
    ('const_specials', "'a\\b' AS s1, 'it''s' AS s2, '50%' AS s3, 'x:y' AS s4, 'a\"b' AS s5, '' AS s6, t1.id", ['id', 's1'], {0: 's1', 1: 's2', 2: 's3', 3: 's4', 4: 's5', 5: 's6'}, False),
    ('const_numbers', "1.5 AS f, -2 AS n, 0.25 + t1.id AS g, 10000000000 AS big, t1.id", ['id', 'f'], {0: 'f', 1: 'n', 2: 'g', 3: 'big'}, False),
]

JOIN_OPTS = [
    ('none', '', None),
    ('join', 'JOIN t2 ON t1.id = t2.id', 't2'),
    ('inner', 'INNER JOIN t2 ON t1.id = t2.id', 't2'),
    ('left', 'LEFT JOIN t2 ON t1.id = t2.id', 't2'),
    ('left_outer', 'LEFT OUTER JOIN t2 ON t1.id = t2.id', 't2'),
    ('right', 'RIGHT JOIN t2 ON t1.id = t2.id', 't2'),
    ('full', 'FULL JOIN t2 ON t1.id = t2.id', 't2'),
    ('full_outer', 'FULL OUTER JOIN t2 ON t1.id = t2.id', 't2'),
    ('cross', 'CROSS JOIN t2', 't2'),
    ('implicit', ', t2', 't2'),
    ('join_on_and', 'JOIN t2 ON t1.id = t2.id AND t2.b = 1', 't2'),
    ('left_on_and', 'LEFT JOIN t2 ON t1.id = t2.id AND t2.b = 1', 't2'),
    ('join_alias', 'JOIN t2 AS p ON t1.id = p.id', 'p'),
    ('three', 'LEFT JOIN t2 ON t1.id = t2.id LEFT JOIN t3 ON t2.id = t3.id', 't2'),
    ('three_inner_left', 'JOIN t2 ON t1.id = t2.id LEFT JOIN t3 ON t1.id = t3.id', 't2'),
    ('join_subquery', 'JOIN (SELECT t2.id, t2.b FROM t2 WHERE t2.b = 1) AS p ON t1.id = p.id', 'p'),
    ('join_noncond', 'JOIN t2 ON t1.a < t2.b', 't2'),
]

# three-table chains: every combination of (join kind, condition present?) for the second and the third table
_LINK = [('join_on', 'JOIN {t} ON {c}'), ('join_nocond', 'JOIN {t}'), ('left_on', 'LEFT JOIN {t} ON {c}'), ('cross', 'CROSS JOIN {t}'), ('right_on', 'RIGHT JOIN {t} ON {c}')]
for _l1, _f1 in _LINK:
    for _l2, _f2 in _LINK:
        JOIN_OPTS.append((f'chain_{_l1}__{_l2}', _f1.format(t='t2', c='t1.id = t2.id') + ' ' + _f2.format(t='t3', c='t2.id = t3.id'), 't2'))

WHERE_OPTS = [
    ('none', ''),
    ('eq', 't1.a = 1'),
    ('and', 't1.a >= 1 AND t1.x < 30'),
    ('or', 't1.a = 1 OR t1.x = 10'),
    ('not', 'NOT t1.a = 1'),
    ('isnull', 't1.a IS NULL'),
    ('isnotnull', 't1.a IS NOT NULL'),
    ('between', 't1.a BETWEEN 1 AND 2'),
    ('in', 't1.a IN (1, 3)'),
    ('notin', 't1.a NOT IN (1)'),
    ('neq', 't1.a <> 1'),
    ('paren_or_and', '(t1.a = 1 OR t1.a = 2) AND t1.x = 10'),
    ('and_or', 't1.a = 1 AND t1.x = 10 OR t1.a = 2'),
    ('not_paren', 'NOT (t1.a = 1 AND t1.x = 10)'),
    ('arith', 't1.a + t1.x * 2 > 21'),
    ('arith_paren', '(t1.a + t1.x) * 2 > 40'),
    ('minus_paren', 't1.x - (t1.a - 1) > 9'),
    ('in_subquery', 't1.id IN (SELECT t2.id FROM t2)'),
    ('notin_subquery', 't1.id NOT IN (SELECT t2.id FROM t2 WHERE t2.id IS NOT NULL)'),
    ('exists', 'EXISTS (SELECT 1 FROM t2 WHERE t2.id = t1.id)'),
    ('not_exists', 'NOT EXISTS (SELECT 1 FROM t2 WHERE t2.id = t1.id)'),
    ('scalar', 't1.a = (SELECT min(t2.b) FROM t2)'),
    ('like', "t1.a LIKE '1%'"),
    ('eq_null_const', 't1.a = NULL'),
    ('neg', 't1.a > -1'),
    # sub-queries that read the outer query's table again, un-aliased (the inner name hides the outer one: no correlation)
    ('exists_same_table', 'EXISTS (SELECT 1 FROM t2, t1 WHERE t2.id = t1.id AND t1.a = 1)'),
    ('in_subquery_same_table', 't1.id IN (SELECT t1.id FROM t1 WHERE t1.a = 1)'),
    ('scalar_same_table', 't1.a = (SELECT max(t1.a) FROM t1)'),
    ('not_exists_same_table', 'NOT EXISTS (SELECT 1 FROM t1 WHERE t1.a = 2)'),
    ('in_subquery_same_table_join', 't1.id IN (SELECT t2.id FROM t2 JOIN t1 ON t1.id = t2.id WHERE t1.x > 10)'),
]

GROUP_OPTS = [('none', ''), ('group', 'GROUP BY t1.a'), ('having', 'GROUP BY t1.a HAVING count(*) > 1'), ('group2', 'GROUP BY t1.a, t1.x'),
              ('having_sum', 'GROUP BY t1.a HAVING sum(t1.x) >= 20 AND count(*) >= 1')]
ORDER_OPTS = [('none', []), ('c0', [(0, False, None)]), ('c0_desc', [(0, True, None)]), ('c1_c0', [(1, False, None), (0, False, None)]),
              ('c1desc_c0', [(1, True, None), (0, False, None)]), ('c1_nf', [(1, False, 'first'), (0, False, None)]),
              ('c1_nl', [(1, False, 'last')]), ('c1desc_nf', [(1, True, 'first')]), ('c1desc_nl_c0desc', [(1, True, 'last'), (0, True, None)]),
              ('c1_asc', [(1, 'asc', None)]),
              # order keys given as output positions
              ('pos_c1desc_c0', [(1, True, None, 'pos'), (0, False, None, 'pos')]), ('pos_c1', [(1, False, None, 'pos')]), ('pos_c0desc', [(0, True, None, 'pos')])]
LIMIT_OPTS = [('none', None, None), ('l1', 1, None), ('l2', 2, None), ('l2o1', 2, 1), ('mysql_1_2', 2, 1), ('l0', 0, None), ('l5o2', 5, 2)]
WRAP_OPTS = ['none', 'cte', 'from_subquery', 'union', 'union_all', 'intersect', 'except', 'table_alias', 'union_three', 'cte_join']
DISTINCT_OPTS = [False, True]

FEATURES = collections.OrderedDict([
    ('targets', TARGET_OPTS), ('distinct', DISTINCT_OPTS), ('join', JOIN_OPTS), ('where', WHERE_OPTS), ('group', GROUP_OPTS),
    ('order', ORDER_OPTS), ('limit', LIMIT_OPTS), ('wrap', WRAP_OPTS),
])

DML = [
    ('insert_values', "INSERT INTO t1 (id, a, x) VALUES (9, 1, 2)"),
    ('insert_multi', "INSERT INTO t1 (id, a, x) VALUES (9, 1, 2), (10, NULL, 3)"),
    ('insert_partial', "INSERT INTO t1 (id, a) VALUES (9, 1)"),
    ('insert_expr', "INSERT INTO t1 (id, a, x) VALUES (9 + 1, -1, 2 * 3)"),
    ('insert_str', "INSERT INTO t1 (id, a, x) VALUES (9, 'it''s', 'x')"),
    ('insert_twins', "INSERT INTO t1 (id, a, x) VALUES (1, 1, 0), (2, 1.0, 0.0), (3, '1', '1.0')"),
    ('insert_twins_rev', "INSERT INTO t1 (id, a, x) VALUES (1.0, 2.0, 0.0), (1, 2, 0)"),
    ('insert_bool_twins', "INSERT INTO t1 (id, a, x) VALUES (1, TRUE, 0), (2, 1, FALSE)"),
    ('update_twins', "UPDATE t1 SET a = 1.0, x = 1 WHERE id = 1"),
    ('insert_select', "INSERT INTO t1 (id, a, x) SELECT t2.id, t2.b, t2.y FROM t2 WHERE t2.b = 1"),
    ('insert_select_join', "INSERT INTO t3 (id, c) SELECT t1.id, t2.b FROM t1 LEFT JOIN t2 ON t1.id = t2.id"),
    ('update_all', "UPDATE t1 SET a = 5"),
    ('update_where', "UPDATE t1 SET a = 5 WHERE id = 2"),
    ('update_two', "UPDATE t1 SET a = x + 1, x = a WHERE a IS NOT NULL"),
    ('update_null', "UPDATE t1 SET a = NULL WHERE x > 10 OR id IS NULL"),
    ('update_not', "UPDATE t1 SET a = 0 WHERE NOT a = 1"),
    ('update_in_subquery', "UPDATE t1 SET a = 0 WHERE id IN (SELECT t2.id FROM t2)"),
    ('delete_all', "DELETE FROM t1"),
    ('delete_where', "DELETE FROM t1 WHERE a = 1"),
    ('delete_or', "DELETE FROM t1 WHERE a = 1 OR x = 20 AND id = 2"),
    ('delete_null', "DELETE FROM t1 WHERE a IS NULL"),
    ('delete_subquery', "DELETE FROM t1 WHERE id NOT IN (SELECT t2.id FROM t2 WHERE t2.id IS NOT NULL)"),
    ('create_int', "CREATE TABLE n1 (a int, b text)"),
    ('create_pk', "CREATE TABLE n1 (a int PRIMARY KEY, b varchar(10))"),
    ('create_pk_list', "CREATE TABLE n1 (a int, b int, PRIMARY KEY (a))"),
    ('create_notnull', "CREATE TABLE n1 (a int NOT NULL, b text NULL)"),
    ('create_if_not_exists', "CREATE TABLE IF NOT EXISTS t1 (z int)"),
    ('create_types', "CREATE TABLE n1 (a float, b bool, c date, d bigint)"),
    ('drop', "DROP TABLE t3"),
    ('drop_if_exists', "DROP TABLE IF EXISTS t3"),
    ('drop_if_exists_missing', "DROP TABLE IF EXISTS nosuch"),
]


# scripts: several statements rendered one after the other by the SAME renderer object and executed in order
SCRIPTS = [
    ('create_insert_drop_create', ['CREATE TABLE n1 (a int, b text, c int)', "INSERT INTO n1 (a, b, c) VALUES (1, 'x', 2)", 'DROP TABLE n1', 'CREATE TABLE n1 (a int, d int)',
                                   'INSERT INTO n1 (a, d) VALUES (3, 4)']),
    ('two_tables_same_columns', ['CREATE TABLE n1 (a int, b int)', 'CREATE TABLE n2 (a int)', 'INSERT INTO n2 (a) VALUES (1)', 'INSERT INTO n1 (a, b) VALUES (1, 2)']),
    ('drop_missing_then_create', ['DROP TABLE IF EXISTS n1', 'CREATE TABLE n1 (z int)', 'DROP TABLE IF EXISTS n1', 'CREATE TABLE n1 (y text, z int)', "INSERT INTO n1 (y, z) VALUES ('q', 1)"]),
    ('create_existing_name_of_schema_table', ['DROP TABLE t3', 'CREATE TABLE t3 (id int)', 'INSERT INTO t3 (id) VALUES (5)']),
    ('insert_twice_then_update', ['INSERT INTO t1 (id, a, x) VALUES (9, 1, 2)', 'INSERT INTO t1 (id, a, x) VALUES (10, 1.0, 2.0)', 'UPDATE t1 SET a = TRUE WHERE id = 9', 'DELETE FROM t1 WHERE id = 10']),
]


# generated DML: full products over small shape alphabets (the hand-kept list above stays as named regression inputs)
SET_OPTS = [
    ('const', 'a = 5'), ('null', 'a = NULL'), ('two_swap', 'a = x + 1, x = a'), ('neg', 'a = - a'), ('neg_const', 'a = -1'),
    ('scalar_subquery', 'a = (SELECT max(t2.b) FROM t2)'), ('case', 'a = CASE WHEN x > 10 THEN 1 ELSE 0 END'),
    ('arith_prec', 'a = a + x * 2'), ('arith_paren', 'a = (a + x) * 2'), ('minus_paren', 'x = x - (a - 1)'), ('str_quote', "a = 'it''s'"),
    ('float', 'a = 1.5'), ('true', 'a = TRUE'), ('coalesce', 'a = coalesce(a, 0)'), ('cmp', 'a = x > 10'), ('isnull', 'x = a IS NULL'),
    ('three', 'id = id + 10, a = 0, x = NULL'), ('qualified', 't1.a = 5') if False else ('cast', 'a = CAST(x AS int)'),
]
INSERT_COLS = [('all', ['id', 'a', 'x']), ('perm', ['x', 'id', 'a']), ('two', ['a', 'id']), ('one', ['id'])]
INSERT_VALS = [('ints', ['9', '1', '2']), ('nulls', ['NULL', 'NULL', 'NULL']), ('neg', ['-9', '-1', '- 2']), ('strs', ["'9'", "'it''s'", "''"]),
               ('floats', ['9.0', '1.5', '0.25']), ('bools', ['9', 'TRUE', 'FALSE']), ('arith', ['9 + 1', '2 * 3 + 1', '2 * (3 + 1)']),
               ('minus_paren', ['9', '5 - (2 - 1)', '5 - 2 - 1']), ('mixed', ['10', "'1'", '1.0']),
               ('specials', ['11', "'a\\b'", "'50% x:y \"q\"'"])]
INSERT_ROWS = [('one', 1), ('two_rows', 2), ('three_rows', 3)]


def dmlgen_cases():
    out = []
    for si in range(len(SET_OPTS)):
        for wi in range(len(WHERE_OPTS)):
            out.append(('update', si, wi))
    for wi in range(len(WHERE_OPTS)):
        out.append(('delete', 0, wi))
    for ci in range(len(INSERT_COLS)):
        for vi in range(len(INSERT_VALS)):
            for ri in range(len(INSERT_ROWS)):
                out.append(('insert', ci, vi * 10 + ri))
    return out


def dmlgen_sql(kind, i, j):
    """-> (sql, label parts) ; WHERE shapes are the SELECT model's (table-qualified columns, sub-queries on t2)"""
    if kind == 'update':
        w = WHERE_OPTS[j][1]
        return f'UPDATE t1 SET {SET_OPTS[i][1]}' + (f' WHERE {w}' if w else ''), {'set': SET_OPTS[i][0], 'where': WHERE_OPTS[j][0]}
    if kind == 'delete':
        w = WHERE_OPTS[j][1]
        return 'DELETE FROM t1' + (f' WHERE {w}' if w else ''), {'where': WHERE_OPTS[j][0]}
    if kind == 'insert':
        vi, ri = divmod(j, 10)
        cols = INSERT_COLS[i][1]
        vals = INSERT_VALS[vi][1]
        order = ['id', 'a', 'x']
        rows = []
        for r in range(INSERT_ROWS[ri][1]):
            # later rows rotate the value list so that twin / differently typed values meet in one statement
            vv = vals[r % 3:] + vals[:r % 3]
            rows.append('(' + ', '.join(vv[order.index(c)] for c in cols) + ')')
        return f'INSERT INTO t1 ({", ".join(cols)}) VALUES ' + ', '.join(rows), {'cols': INSERT_COLS[i][0], 'vals': INSERT_VALS[vi][0], 'rows': INSERT_ROWS[ri][0]}
    if kind == 'insert_select':
        q = build(dict(zip(FEATURES, i)))
        n = len(out_names_of(q))
        tgt = {2: 't3 (id, c)', 3: 't2 (id, b, y)'}.get(n)
        if tgt is None:
            return None, None
        return f'INSERT INTO {tgt} ' + q['sql'], {'select': q['label']}
    raise ValueError(kind)


def out_names_of(q):
    """number of output columns of a generated SELECT, read from sqlite itself"""
    con = sqlref.make_db({'t1': [], 't2': [], 't3': []})
    try:
        r = sqlref.run(con, q['sql'])
        return r[1] if r[0] == 'rows' else []
    finally:
        con.close()


# statements a renderer object has seen before the judged one (derived tables the renderer cannot express, an unknown cast type,
# DDL, an ordered and limited query)
HISTORY_PRELUDE = ['SELECT * FROM (SELECT * FROM a.b.c.d.t1 ORDER BY x) AS s ORDER BY x', 'SELECT cast(a AS foo) FROM t1', 'CREATE TABLE n9 (a int)',
                   'SELECT a FROM t1 WHERE a IN (SELECT b FROM x.y.z.w.t2) ORDER BY a LIMIT 1', 'SELECT t1.a FROM t1 RIGHT JOIN t2 ON t1.id = t2.id']


def build(assign):
    """-> dict(sql, full_sql (no order/limit), spec, limit, offset, aliases, ncols) or None if the combination is not meaningful"""
    tl, tsel, tcols, taliases, tagg = TARGET_OPTS[assign['targets']]
    jl, jsql, jalias = JOIN_OPTS[assign['join']]
    wl, wsql = WHERE_OPTS[assign['where']]
    gl, gsql = GROUP_OPTS[assign['group']]
    ol, ospec = ORDER_OPTS[assign['order']]
    ll, lim, off = LIMIT_OPTS[assign['limit']]
    wrap = WRAP_OPTS[assign['wrap']]
    distinct = DISTINCT_OPTS[assign['distinct']]
    sel = tsel
    cols = list(tcols)
    aliases = dict(taliases)
    if gsql:
        if tagg or tl in ('star', 'qstar') or 'window' in tl:
            return None
        sel = 't1.a, count(*) AS n, sum(t1.x) AS s' if gl != 'group2' else 't1.a, t1.x, count(*) AS n'
        cols = ['a', 'n']
        aliases = {1: 'n', 2: 's'} if gl != 'group2' else {2: 'n'}
        if tl != 'plain':
            return None
    elif jalias and not tagg and tl not in ('star', 'qstar'):
        sel = sel + f', {jalias}.b AS jb'
        aliases[sel.count(',') if False else len(split_top(sel)) - 1] = 'jb'
    if tl == 'star' and jalias:
        return None    # duplicate column names make aliases ambiguous; qstar covers the join case
    if distinct:
        if tagg:
            return None
        sel = 'DISTINCT ' + sel
    t1 = 't1'
    core = f'SELECT {sel} FROM t1'
    if wrap == 'table_alias':
        if jalias == 'p' or 'scalar' in tl:
            return None
        core = f'SELECT {sel} FROM t1 AS q1'
        rep = lambda s: s.replace('t1.', 'q1.')
        core, jsql, wsql, gsql = rep(core), rep(jsql), rep(wsql), rep(gsql)
    if jsql:
        core += ' ' + jsql
    if wsql:
        core += ' WHERE ' + wsql
    if gsql:
        core += ' ' + gsql
    ncols = len(split_top(sel))
    if tl in ('star', 'qstar'):
        ncols = 3
    second = 'SELECT ' + ', '.join((['t2.id', 't2.b', 't2.y'] * 3)[:ncols]) + ' FROM t2'
    third = 'SELECT ' + ', '.join((['t3.id', 't3.c'] * 4)[:ncols]) + ' FROM t3'
    if tagg and ospec:
        ospec = [s for s in ospec if s[0] < len(cols)]
    if tl in ('star', 'qstar') and wrap in ('union', 'union_all', 'intersect', 'except', 'union_three'):
        return None
    if wrap in ('none', 'table_alias'):
        body = core
    elif wrap == 'cte':
        body = f'WITH q AS ({core}) SELECT * FROM q'
    elif wrap == 'cte_join':
        if ncols < 2 or tl in ('star', 'qstar'):
            return None
        body = f'WITH q AS ({core}) SELECT q.*, t3.c FROM q LEFT JOIN t3 ON q.{cols[0]} = t3.id'
    elif wrap == 'from_subquery':
        body = f'SELECT * FROM ({core}) AS sq'
    elif wrap == 'union':
        body = f'{core} UNION {second}'
    elif wrap == 'union_all':
        body = f'{core} UNION ALL {second}'
    elif wrap == 'intersect':
        body = f'{core} INTERSECT {second}'
    elif wrap == 'except':
        body = f'{core} EXCEPT {second}'
    elif wrap == 'union_three':
        body = f'{core} UNION {second} UNION ALL {third}'
    # order keys refer to output column positions: locate them
    names_out = out_names(sel, tl)
    spec = []
    otxt = []
    for entry in ospec:
        pos, desc, nulls = entry[:3]
        positional = len(entry) > 3
        if pos >= len(cols):
            return None
        cname = cols[pos]
        if cname not in names_out:
            return None
        idx = names_out.index(cname)
        d = desc is True
        spec.append((idx, d, nulls))
        oexpr = cname
        if wrap in ('none', 'table_alias') and cname in ('id', 'a', 'x') and not gsql:
            oexpr = ('q1.' if wrap == 'table_alias' else 't1.') + cname
        elif wrap in ('none', 'table_alias') and cname == 'a' and gsql:
            oexpr = ('q1.' if wrap == 'table_alias' else 't1.') + cname
        if positional:
            oexpr = str(idx + 1)
        otxt.append(oexpr + (' DESC' if d else ' ASC' if desc == 'asc' else '') + (' NULLS FIRST' if nulls == 'first' else ' NULLS LAST' if nulls == 'last' else ''))
    sql = body
    if otxt:
        if tl in ('star', 'qstar') and jalias:
            return None
        sql += ' ORDER BY ' + ', '.join(otxt)
    if lim is not None:
        if ll == 'mysql_1_2':
            sql += f' LIMIT {off}, {lim}'
        else:
            sql += f' LIMIT {lim}' + (f' OFFSET {off}' if off is not None else '')
    return dict(sql=sql, full_sql=body, spec=spec, limit=lim, offset=off, aliases=aliases if wrap in ('none', 'table_alias') else {}, label=label(assign))


def split_top(sel):
    parts, depth, cur = [], 0, ''
    for ch in sel:
        if ch == '(':
            depth += 1
        elif ch == ')':
            depth -= 1
        if ch == ',' and depth == 0:
            parts.append(cur)
            cur = ''
        else:
            cur += ch
    parts.append(cur)
    return parts


def out_names(sel, tl):
    if tl in ('star', 'qstar'):
        return ['id', 'a', 'x']
    names = []
    s = sel[len('DISTINCT '):] if sel.startswith('DISTINCT ') else sel
    for p in split_top(s):
        p = p.strip()
        if ' AS ' in p and not p.endswith(')'):
            names.append(p.rsplit(' AS ', 1)[1].strip())
        else:
            names.append(p.split('.')[-1])
    return names


def label(assign, for_signature=False):
    out = []
    for name, opts in FEATURES.items():
        k = assign[name]
        if k:
            o = opts[k]
            if for_signature and name in ('order', 'limit'):
                out.append(name)     # the parameters of ORDER BY / LIMIT do not identify a rendering code path
            else:
                out.append(f'{name}={o[0] if isinstance(o, tuple) else o}')
    return ','.join(out) or 'default'


class CHECK(Check):
    pid = 'C06'
    level = 'exploration'
    case_timeout = 900      # one case = one statement / plan on every database of the tier
    assumptions = ['sqlite 3.40 is the reference engine for both texts; mysql / postgresql renderings are compared where sqlite can execute them',
                   '`/`, `%`, `||` are kept out of the alphabet (dialect-divergent meaning)', 'ORDER BY keys are output columns so that order is observable']

    def setup(self, tier, seed):
        self.tier, self.seed = tier, seed
        self.init_dbs(tier)
        self.cons = None
        self.renders = None

    def init_dbs(self, tier):
        """thorough: all databases for cases with <= 1 non-default feature(s), the quick database set for the others"""
        self.dbs = sqlref.databases(tier)
        self.narrow = None
        self.active = None
        if tier == 'thorough':
            keyf = lambda db: repr(sorted(db.items()))
            pos = {keyf(db): i for i, db in enumerate(self.dbs)}
            self.narrow = []
            for db in sqlref.databases('quick'):
                k = keyf(db)
                if k not in pos:
                    pos[k] = len(self.dbs)
                    self.dbs.append(db)
                self.narrow.append(pos[k])

    def db_iter(self):
        idx = self.active if self.active is not None else range(len(self.dbs))
        for i in idx:
            yield self.cons[i], self.dbs[i]

    def choose_dbs(self, nondefault):
        self.active = self.narrow if (self.narrow is not None and nondefault > 1) else None

    def cases(self):
        d = 3 if self.tier == 'thorough' else 2
        out = []
        for a in qgen.assignments(FEATURES, d, full_products=[('join', 'where'), ('join', 'order', 'limit'), ('join', 'targets'), ('wrap', 'order', 'limit')]):
            if build(a) is not None:
                out.append(('select', tuple(a[n] for n in FEATURES)))
        for name, sql in DML:
            out.append(('dml', name))
        for name, stmts in SCRIPTS:
            out.append(('script', name))
        for c in dmlgen_cases():
            out.append(('dmlgen', c))
        # INSERT ... SELECT over the SELECT model: <= 1 non-default feature (thorough 2) + join x where
        for a in qgen.assignments(FEATURES, 2 if self.tier == 'thorough' else 1, full_products=[('join', 'where'), ('order', 'limit')]):
            qa = build(a)
            if qa is not None:
                if qa['limit'] is not None:
                    # which rows a LIMIT keeps is the engine's choice (even under ORDER BY with ties): the inserted rows are not
                    # determined by the statement, so the resulting table cannot be compared exactly (the SELECT cases judge
                    # LIMIT with the set of legal answers)
                    continue
                key = tuple(a[n] for n in FEATURES)
                if dmlgen_sql('insert_select', key, 0)[0] is not None:
                    out.append(('dmlgen', ('insert_select', key, 0)))
        return out

    def ensure(self):
        if self.cons is None:
            self.cons = [sqlref.make_db(db) for db in self.dbs]
            self.renders = {t: SqlalchemyRender(t) for t in TARGETS}

    def evaluate(self, q, res=None):
        """-> list of (target, kind, message)"""
        self.ensure()
        out = parsing.outcome(q['sql'], 'mindsdb')
        if out.kind != 'ok':
            return [('parser', 'original-not-parsed', f'{q["sql"]!r}: {out.kind} {str(out.exc)[:100]}')]
        ast = out.value
        rendered = {}
        for t in TARGETS:
            try:
                rendered[t] = SqlalchemyRender(t).get_string(ast, with_failback=False)
            except (SQLAlchemyError, NotImplementedError):
                if res:
                    res.count('unsupported_' + t)
            except Exception as e:
                if res:
                    res.count('render_internal_error_(C17)')
            # the same statement on a renderer object that has rendered other statements before (some of them unsupported, with the
            # fallback on): judged like a target of its own whenever the text differs from the new renderer's
            try:
                r = SqlalchemyRender(t)
                for pre in HISTORY_PRELUDE:
                    try:
                        r.get_string(parsing.outcome(pre, 'mindsdb').value, with_failback=True)
                    except Exception:
                        pass
                text = r.get_string(ast, with_failback=False)
                if t in rendered and text != rendered[t]:
                    rendered[t + '@renderer-with-history'] = text
                    if res:
                        res.count('renderings_that_differ_after_a_history')
            except Exception:
                pass
        fails = []
        failed_targets = set()
        for con, db in self.db_iter():
            ref_full = sqlref.run(con, q['full_sql'])
            ref = sqlref.run(con, q['sql'])
            if ref_full[0] != 'rows' or ref[0] != 'rows':
                if res:
                    res.count('original_not_executable_in_sqlite')
                return fails + [('oracle', 'original-not-executable', f'{q["sql"]!r}: {ref if ref[0] == "error" else ref_full}')] if False else fails
            ok, why = sqlref.legal_answer(ref_full[2], ref[2], q['spec'], q['limit'], q['offset'])
            if not ok:
                return [('oracle', 'original-answer-judged-illegal', f'{q["sql"]!r}: {why} on {db}')]
            for t, text in rendered.items():
                if t in failed_targets:
                    continue
                got = sqlref.run(con, text)
                if res:
                    res.count('executions')
                if got[0] != 'rows':
                    if t.split('@')[0] == 'sqlite':
                        failed_targets.add(t)
                        fails.append((t, 'rendered-text-not-executable', f'{q["sql"]!r} renders as {text!r}: {got[1]}'))
                    else:
                        failed_targets.add(t)
                        if res:
                            res.count('not_executable_here_' + t)
                    continue
                ok, why = sqlref.legal_answer(ref_full[2], got[2], q['spec'], q['limit'], q['offset'])
                if not ok:
                    failed_targets.add(t)
                    fails.append((t, 'rows-differ', f'{q["sql"]!r} renders as {text!r}: {why}; database {db}; original -> {ref[2][:6]}, rendered -> {got[2][:6]}'))
                    continue
                for pos, name in q['aliases'].items():
                    if pos < len(got[1]) and got[1][pos] != name:
                        failed_targets.add(t)
                        fails.append((t, 'alias-lost', f'{q["sql"]!r} renders as {text!r}: output column {pos} is named {got[1][pos]!r}, not {name!r}'))
                        break
        return fails

    def run(self, case):
        res = Result()
        kind, payload = case
        if kind == 'dml':
            self.choose_dbs(0)
            return self.run_dml(res, payload)
        if kind == 'script':
            return self.run_script(res, payload)
        if kind == 'dmlgen':
            sql, parts = dmlgen_sql(*payload)
            self.choose_dbs(2)
            name = payload[0] + ':' + ','.join(f'{k}={v}' for k, v in parts.items())
            r = self.run_dml(res, name, sql)
            if r.violations and payload[0] == 'insert_select':
                # a failure the bare SELECT shows as well belongs to (and is reported by) the SELECT case
                sel_fails = {(t, k) for t, k, _ in self.evaluate(build(dict(zip(FEATURES, payload[1]))))}
                r.violations = [v for v in r.violations if tuple(v[0].split('|')[:2]) not in sel_fails]
            if r.violations and payload[0] in ('update', 'insert'):
                # attribute to one shape where a single non-default shape already fails the same way
                kinds = {v[0].rsplit('|', 1)[0] for v in r.violations}
                if payload[0] == 'update':
                    reduced = [('update', payload[1], 0), ('update', 0, payload[2])]
                else:
                    vi, ri = divmod(payload[2], 10)
                    reduced = [('insert', payload[1], vi * 10), ('insert', 0, payload[2]), ('insert', 0, vi * 10), ('insert', payload[1], 0)]
                for alt in reduced:
                    if alt == payload:
                        continue
                    sql2, parts2 = dmlgen_sql(*alt)
                    r2 = self.run_dml(Result(), alt[0] + ':' + ','.join(f'{k}={v}' for k, v in parts2.items()), sql2)
                    if {v[0].rsplit('|', 1)[0] for v in r2.violations} & kinds:
                        r.violations = []      # reported by the simpler case
                        break
            return r
        assign = dict(zip(FEATURES, payload))
        q = build(assign)
        res.key(q['sql'])
        self.choose_dbs(sum(1 for v in payload if v))
        fails = self.evaluate(q, res)
        for (t, k, msg) in fails:
            # minimise the feature set that still shows this failure
            cur = dict(assign)
            for name in FEATURES:
                if cur[name] == 0:
                    continue
                trial = dict(cur)
                trial[name] = 0
                q2 = build(trial)
                if q2 is None:
                    continue
                if any(t2 == t and k2 == k for t2, k2, _ in self.evaluate(q2)):
                    cur = trial
            res.violation(f'{t}|{k}|{label(cur, True)}', msg + f'\n    minimal failing features: {label(cur)} (from {label(assign)})')
        return res

    def run_dml(self, res, name, sql=None):
        self.ensure()
        generated = sql is not None
        sql = sql or dict(DML)[name]
        res.key(sql)
        out = parsing.outcome(sql, 'mindsdb')
        if out.kind != 'ok':
            if generated:
                res.count('generated_dml_not_accepted_by_the_parser')
                return res
            res.violation(f'parser|original-not-parsed|{name}', f'{sql!r}: {out.kind}')
            return res
        rendered = {}
        for t in TARGETS:
            try:
                rendered[t] = self.renders[t].get_string(out.value, with_failback=False)
            except (SQLAlchemyError, NotImplementedError):
                res.count('unsupported_' + t)
            except Exception:
                res.count('render_internal_error_(C17)')
        done = set()

        def effect(con, db, text):
            """tables after executing text on a database with content db -> (dump, error)"""
            if generated:
                # persistent connection, statement undone afterwards (sqlite DDL is transactional too)
                con.execute('BEGIN')
                try:
                    con.execute(text)
                    return sqlref.dump(con), None
                except sqlite3.Error as e:
                    return None, str(e)
                finally:
                    con.rollback()
            con = sqlref.make_db(db)
            try:
                con.execute(text)
                return sqlref.dump(con), None
            except sqlite3.Error as e:
                return None, str(e)
            finally:
                con.close()

        idx = self.active if self.active is not None else range(len(self.dbs))
        for i in idx:
            db, pcon = self.dbs[i], self.cons[i]
            want, werr = effect(pcon, db, sql)
            for t, text in rendered.items():
                if t in done:
                    continue
                got, gerr = effect(pcon, db, text)
                res.count('executions')
                if werr is not None:
                    if gerr is None:
                        done.add(t)
                        res.violation(f'{t}|effect-differs|{name}', f'{sql!r} fails in sqlite ({werr}) but the rendering {text!r} succeeds on {db}')
                    continue
                if gerr is not None:
                    if t == 'sqlite':
                        done.add(t)
                        res.violation(f'{t}|rendered-text-not-executable|{name}', f'{sql!r} renders as {text!r}: {gerr}')
                    else:
                        res.count('not_executable_here_' + t)
                        done.add(t)
                    continue
                if name.startswith('create'):
                    # declared column types are dialect spellings; compare names, primary key, not-null and contents
                    # (sqlite lets a non-INTEGER primary key be NULL; NOT NULL on a primary-key column is therefore not compared)
                    norm = lambda d: {k: (tuple((c[0], c[2] or bool(c[3]), c[3]) for c in v[0]), v[1]) for k, v in d.items()}
                    same = norm(want) == norm(got)
                else:
                    same = want == got
                if not same:
                    done.add(t)
                    res.violation(f'{t}|effect-differs|{name}', f'{sql!r} renders as {text!r}: resulting tables differ on {db}')
        return res

    def run_script(self, res, name):
        stmts = dict(SCRIPTS)[name]
        res.key(tuple(stmts))
        trees = []
        for sql in stmts:
            out = parsing.outcome(sql, 'mindsdb')
            if out.kind != 'ok':
                res.violation(f'parser|original-not-parsed|{name}', f'{sql!r}: {out.kind}')
                return res
            trees.append(out.value)
        norm = lambda d: {k: (tuple((c[0], c[2] or bool(c[3]), c[3]) for c in v[0]), v[1]) for k, v in d.items()}
        for t in TARGETS:
            r = SqlalchemyRender(t)      # one renderer object for the whole script
            try:
                texts = [r.get_string(tree, with_failback=False) for tree in trees]
            except (SQLAlchemyError, NotImplementedError):
                res.count('unsupported_' + t)
                continue
            except Exception:
                res.count('render_internal_error_(C17)')
                continue
            for db in self.dbs[:12]:
                c1, c2 = sqlref.make_db(db), sqlref.make_db(db)
                try:
                    for sql in stmts:
                        c1.execute(sql)
                    want = norm(sqlref.dump(c1))
                except sqlite3.Error:
                    res.count('script_not_executable_in_sqlite')
                    c1.close(); c2.close()
                    break
                try:
                    for text in texts:
                        c2.execute(text)
                    got, gerr = norm(sqlref.dump(c2)), None
                except sqlite3.Error as e:
                    got, gerr = None, str(e)
                c1.close(); c2.close()
                res.count('executions')
                if gerr is not None:
                    if t == 'sqlite':
                        res.violation(f'{t}|rendered-script-not-executable|{name}', f'{stmts!r} renders as {texts!r}: {gerr}')
                    else:
                        res.count('not_executable_here_' + t)
                    break
                if got != want:
                    res.violation(f'{t}|script-effect-differs|{name}', f'{stmts!r} rendered by one renderer as {texts!r}: resulting tables differ on {db}')
                    break
        return res

    def coverage(self, agg):
        return {'exhaustive': True, 'databases': len(self.dbs), 'databases_used_for_cases_with_3_deviations': len(self.narrow) if self.narrow is not None else len(self.dbs), 'targets': TARGETS,
                'features': {n: [o[0] if isinstance(o, tuple) else o for o in opts] for n, opts in FEATURES.items()},
                'rule': 'all feature assignments with <= d non-default features (quick d=2, thorough d=3) + full products join x where, join x order x limit, '
                        'join x targets, wrap x order x limit; 29 hand-kept DML/DDL statements + generated DML (UPDATE set shape x WHERE shape, DELETE x WHERE shape, INSERT column list x value kinds x row count, INSERT ... SELECT x SELECT model with <= 1 (thorough 2) non-default features); every statement on every database; distinct_nontrivial = distinct SQL texts'}

    def describe_case(self, case):
        if case[0] == 'script':
            return {'kind': 'script', 'name': case[1], 'statements': dict(SCRIPTS)[case[1]]}
        if case[0] == 'dml':
            return {'kind': 'dml', 'sql': dict(DML)[case[1]]}
        if case[0] == 'dmlgen':
            return {'kind': 'dml (generated)', 'sql': dmlgen_sql(*case[1])[0]}
        q = build(dict(zip(FEATURES, case[1])))
        return {'kind': 'select', 'features': q['label'], 'sql': q['sql']}

"""Alternative spellings of lexeme-bearing terminals (the 'lexeme deviations' of DESIGN C01/C02/C04)."""

ALT = {
    'ID': ['`abc`', '`a b`', '`a.b`', '`1a`', '1a', 'a$b', 'ABC', 'aBc', '_x', '`select`', '`primary_key`',
           '`group by`', '`nulls first`', '`from`', '`table`', '`é`', '`漢`', '`a-b`', "`a'b`", '`a"b`', '`*`', '`1`'],
    'QUOTE_STRING': ["''", "'a''b'", "'a\\'b'", "'''a'", "'a'''", "''''", "'\\\\'", "'a\\\\'", "'\\\\a'", "'%'", "':x'",
                     "';'", "'--'", "'/*'", "'a\nb'", "'é'", "'\"'", "'a\"b'", "'a\\\"b'", "' '", "'a.b'", "'`'", "'1'", "'\\n'"],
    'DQUOTE_STRING': ['""', '"a""b"', '"a\\"b"', '"\\\\"', '"a\\\\"', '"%"', '":x"', '"a\'b"', '"a\\\'b"', '"a b"', '"a.b"',
                      '"é"', '"`"', '"a\nb"', '"select"', '"1"'],
    'INTEGER': ['0', '007', '12345678901234567890123456789'],
    'FLOAT': ['1.0', '1.50', '0.5', '00.5', '123456789.123456789'],
    'VARIABLE': ['@v.w', "@'a b'", '@`a b`', '@"a b"', '@$x', "@'a'", '@_', '@`abc\n`', "@'a\nb'", '@`\nabc`', '@`a `', '@` a`', '@`a\tb`', '@"abc\n"', '@`a1`', '@`1`'],
    'SYSTEM_VARIABLE': ['@@v.w', "@@'a b'", '@@`a b`', '@@"a b"', '@@`abc\n`', "@@'a.b\n'", '@@`a `'],
    'PARAMETER': ['?'],
}


# identifier spellings that grammar actions treat specially (dictionary keys they look up, magic names)
MAGIC_IDS = ['model', 'storage', 'type', 'database', 'agent', 'names', 'engine', 'last', 'MODEL', 'Type']


def keyword_ids(model):
    """every token name and every word of the lexer's keyword regexes, as back-quoted identifiers and as bare words"""
    words = set()
    for t in model.terminals:
        words.add(t.lower())
        sp = model.lexeme.get(t)
        if sp and sp.replace(' ', '').replace('_', '').isalpha():
            words.add(sp.lower())
            for w in sp.lower().split():
                words.add(w)
    return sorted(words)


def deviations(model, types, alts=None, per_class_first_only=True, magic=True):
    """texts obtained from the default text of `types` by respelling one lexeme-bearing position"""
    alts = alts or ALT
    base = [model.lexeme.get(t, t) for t in types]
    seen_cls = set()
    out = []
    for i, t in enumerate(types):
        if t not in alts:
            continue
        if per_class_first_only:
            if t in seen_cls:
                continue
            seen_cls.add(t)
        elif magic and t == 'ID' and False:
            pass
        for sp in alts[t]:
            toks = list(base)
            toks[i] = sp
            out.append((i, sp, ' '.join(toks)))
    if magic:
        for i, t in enumerate(types):
            if t == 'ID':
                for sp in MAGIC_IDS:
                    toks = list(base)
                    toks[i] = sp
                    out.append((i, sp, ' '.join(toks)))
    return out


# non-ASCII letters that re.IGNORECASE folds onto ASCII ones (the lexers match keywords case-insensitively):
# U+017F LONG S ~ s, U+0131 DOTLESS I ~ i, U+212A KELVIN SIGN ~ k, U+0130 I WITH DOT ~ i
FOLDS = {'s': ['\u017f'], 'i': ['\u0131', '\u0130'], 'k': ['\u212a']}


def fold_variants(word):
    """spellings of a keyword with one letter replaced by a non-ASCII letter that case-folds to it"""
    out = []
    for i, ch in enumerate(word):
        for alt in FOLDS.get(ch.lower(), ()):
            out.append(word[:i] + alt + word[i + 1:])
    return out


def keyword_like_ids(model):
    """back-quoted names that begin or end with a keyword and continue with a character the ID pattern accepts but \\b does not treat
    as part of a word ($), or with a digit / underscore"""
    out = []
    for w in keyword_ids(model):
        if ' ' in w:
            continue
        out += ['`%s$x`' % w, '`%s$`' % w, '`$%s`' % w, '`%s$1`' % w, '`x$%s`' % w]
    return out

import importlib
import sys

from vf import runner


def main():
    if len(sys.argv) < 2:
        print('usage: check Cxx [--tier quick|thorough] [--replay path]')
        return 2
    pid = sys.argv[1].upper()
    mod = importlib.import_module('vf.props.' + pid.lower())
    chk = mod.CHECK()
    return runner.main_check(chk, sys.argv[2:])


if __name__ == '__main__':
    sys.exit(main())

"""REFLECT - reflective object-graph utilities (independent of query_traversal / to_tree / __eq__)."""
from mindsdb_sql.parser.ast.base import ASTNode

PRIMS = (str, int, float, bool, type(None), bytes, complex)


def is_obj(v):
    return hasattr(v, '__dict__') and not isinstance(v, type) and not callable(v)


def walk(root, want=lambda o: isinstance(o, ASTNode), _path=(), _seen=None, descend_all=True):
    """yield (obj, path) for every object satisfying `want` reachable from root through instance
    attributes, lists, tuples and dicts.  path = tuple of steps; a step is a field name (str), a list
    index (int) or ('key', k) for dict values.  The root has path ()."""
    if _seen is None:
        _seen = set()
    if isinstance(root, PRIMS):
        return
    if isinstance(root, (list, tuple)):
        for i, v in enumerate(root):
            yield from walk(v, want, _path + (i,), _seen)
        return
    if isinstance(root, dict):
        for k, v in root.items():
            yield from walk(v, want, _path + (('key', k),), _seen)
        return
    if isinstance(root, (set, frozenset)):
        return
    if not is_obj(root):
        return
    if id(root) in _seen:
        if want(root):
            yield root, _path      # shared object reached a second time: report, do not descend again
        return
    _seen.add(id(root))
    if want(root):
        yield root, _path
    for f, v in vars(root).items():
        yield from walk(v, want, _path + (f,), _seen)


def get_at(root, path):
    cur = root
    for st in path:
        if isinstance(st, str):
            cur = getattr(cur, st)
        elif isinstance(st, int):
            cur = cur[st]
        else:
            cur = cur[st[1]]
    return cur


def set_at(root, path, value):
    parent = get_at(root, path[:-1])
    st = path[-1]
    if isinstance(st, str):
        setattr(parent, st, value)
    elif isinstance(st, int):
        if isinstance(parent, tuple):
            # tuples are immutable: rebuild in the grand-parent slot
            lst = list(parent)
            lst[st] = value
            set_at(root, path[:-1], tuple(lst))
        else:
            parent[st] = value
    else:
        parent[st[1]] = value


def owner(root, path):
    """(owning object, field name) of a path: the nearest enclosing instance and the attribute under it"""
    for i in range(len(path) - 1, -1, -1):
        if isinstance(path[i], str):
            return get_at(root, path[:i]), path[i]
    return None, None


def fingerprint(obj, _depth=0, ignore=()):
    """structural fingerprint: class + all instance attributes, recursively (cycle-safe by depth bound)"""
    if _depth > 200:
        return '<deep>'
    if isinstance(obj, PRIMS):
        return (type(obj).__name__, obj)
    if isinstance(obj, (list, tuple)):
        return (type(obj).__name__,) + tuple(fingerprint(v, _depth + 1, ignore) for v in obj)
    if isinstance(obj, dict):
        return ('dict',) + tuple((repr(k), fingerprint(v, _depth + 1, ignore)) for k, v in obj.items())
    if isinstance(obj, (set, frozenset)):
        return ('set',) + tuple(sorted(repr(x) for x in obj))
    if is_obj(obj):
        return (type(obj).__name__,) + tuple((f, fingerprint(v, _depth + 1, ignore)) for f, v in sorted(vars(obj).items()) if f not in ignore)
    return ('other', repr(obj))


def mutable_ids(obj, _seen=None):
    """ids of every mutable container / instance reachable (for sharing checks); maps id -> path"""
    out = {}

    def rec(o, path):
        if isinstance(o, PRIMS) or isinstance(o, (frozenset,)):
            return
        if isinstance(o, tuple):
            for i, v in enumerate(o):
                rec(v, path + (i,))
            return
        if id(o) in out:
            return
        if isinstance(o, list):
            out[id(o)] = path
            for i, v in enumerate(o):
                rec(v, path + (i,))
        elif isinstance(o, dict):
            out[id(o)] = path
            for k, v in o.items():
                rec(v, path + (('key', k),))
        elif isinstance(o, set):
            out[id(o)] = path
        elif is_obj(o):
            out[id(o)] = path
            for f, v in vars(o).items():
                rec(v, path + (f,))

    rec(obj, ())
    return out


def path_str(path):
    return '.'.join(str(p) if not isinstance(p, tuple) else f'[{p[1]!r}]' for p in path)

"""Thin, shared access to the parser under test."""
import re

from mindsdb_sql import parse_sql
from mindsdb_sql.exceptions import ParsingException
from mindsdb_sql.parser.ast.base import ASTNode
from sly.lex import LexError

from vf.runner import exc_sig

SYNTAX_PREFIXES = ('Syntax error at token', 'Syntax error at EOF', 'Syntax error, unexpected end of query',
                   'Syntax error, unknown input', 'Empty input')


class Outcome:
    __slots__ = ('kind', 'value', 'exc')

    def __init__(self, kind, value=None, exc=None):
        self.kind, self.value, self.exc = kind, value, exc

    @property
    def is_syntax_error(self):
        return self.kind == 'perr' and str(self.exc).startswith(SYNTAX_PREFIXES)


def outcome(text, dialect):
    """kind in ok / perr (ParsingException) / lexerr / crash / nontree"""
    try:
        ast = parse_sql(text, dialect=dialect)
    except ParsingException as e:
        return Outcome('perr', exc=e)
    except LexError as e:
        return Outcome('lexerr', exc=e)
    except RecursionError as e:
        return Outcome('crash', exc=e)
    except Exception as e:
        return Outcome('crash', exc=e)
    if not isinstance(ast, ASTNode):
        return Outcome('nontree', value=ast)
    return Outcome('ok', value=ast)


def strip_tail(text):
    return re.sub(r'[\s;]+$', '', text)

#!/venv/bin/python
"""Maintenance tool (never run by a check): validate a seeded property-breaking change and run checks against it.

usage: tools/seedtest.py <patch.diff> <demo.py> [--checks C01,C05] [--tier quick] [--skip-tests] [--name X]

 1. scratch worktree of /repo HEAD under /tmp/wt/seed_<name> (removed at the end)
 2. demo on the pristine tree        -> must exit 0
 3. apply the patch, run the unedited test suite -> must be all green
 4. demo on the patched tree         -> must exit non-zero
 5. every requested check, quick tier, VERIF_REPO=<worktree>, VERIF_OUT=/tmp/out/seed_<name>
Prints one JSON line with the outcome.
"""
import argparse
import json
import os
import re
import shutil
import subprocess
import sys
import time

ROOT = os.path.dirname(os.path.dirname(os.path.abspath(__file__)))
PY = '/venv/bin/python'


def sh(cmd, cwd=None, env=None, timeout=3600):
    e = dict(os.environ)
    e.update(env or {})
    p = subprocess.run(cmd, shell=isinstance(cmd, str), cwd=cwd, env=e, capture_output=True, text=True, timeout=timeout)
    return p.returncode, p.stdout + p.stderr


def main():
    ap = argparse.ArgumentParser()
    ap.add_argument('patch')
    ap.add_argument('demo')
    ap.add_argument('--checks', default='')
    ap.add_argument('--tier', default='quick')
    ap.add_argument('--skip-tests', action='store_true')
    ap.add_argument('--name')
    ap.add_argument('--seed', default='0')
    a = ap.parse_args()
    name = a.name or re.sub(r'\W+', '_', os.path.abspath(a.patch))[-40:]
    wt = f'/tmp/wt/seed_{name}'
    out = f'/tmp/out/seed_{name}'
    sh(['git', '-C', '/repo', 'worktree', 'remove', '--force', wt])
    shutil.rmtree(out, ignore_errors=True)
    os.makedirs(out, exist_ok=True)
    rc, o = sh(['git', '-C', '/repo', 'worktree', 'add', '--detach', wt, 'HEAD'])
    assert rc == 0, o
    res = {'name': name, 'patch': a.patch}
    try:
        env = {'PYTHONPATH': wt}
        rc, o = sh([PY, os.path.abspath(a.demo)], cwd=wt, env=env, timeout=600)
        res['demo_pristine_rc'] = rc
        rc, o = sh(['git', '-C', wt, 'apply', os.path.abspath(a.patch)])
        if rc != 0:
            # the tree moved on since the change was seeded (later fix: commits): merge it
            rc, o = sh(f'patch -p1 --fuzz=3 --no-backup-if-mismatch < {os.path.abspath(a.patch)}', cwd=wt)
            res['applied_with_fuzz'] = True
        res['apply_rc'] = rc
        if rc != 0:
            res['apply_out'] = o[-400:]
            return res
        if not a.skip_tests:
            rc, o = sh([PY, '-m', 'pytest', '-q', '-p', 'no:cacheprovider', '--timeout=900'], cwd=wt, env=env)
            res['tests_rc'] = rc
            res['tests_tail'] = o.strip().splitlines()[-1] if o.strip() else ''
        rc, o = sh([PY, os.path.abspath(a.demo)], cwd=wt, env=env, timeout=600)
        res['demo_patched_rc'] = rc
        res['demo_patched_tail'] = o.strip()[-300:]
        res['checks'] = {}
        for c in [c for c in a.checks.split(',') if c]:
            t0 = time.time()
            rc, o = sh([os.path.join(ROOT, 'check'), c, '--tier', a.tier], cwd=ROOT,
                       env={'VERIF_REPO': wt, 'VERIF_OUT': out, 'VERIF_SEED': a.seed}, timeout=7200)
            viol = [l for l in o.splitlines() if l.startswith('VIOLATION')]
            sigs = [l.strip() for l in o.splitlines() if l.strip().startswith('signature=')]
            res['checks'][c] = {'rc': rc, 'violations': len(viol), 'sigs': sigs[:6], 'wall': round(time.time() - t0, 1)}
            with open(os.path.join(out, f'{c}.log'), 'w') as fh:
                fh.write(o)
    finally:
        sh(['git', '-C', '/repo', 'worktree', 'remove', '--force', wt])
        shutil.rmtree(wt, ignore_errors=True)
    return res


if __name__ == '__main__':
    r = main()
    print(json.dumps(r, indent=1))
